#!/usr/bin/env bash
# Build the overlay venv used by every check.  Offline: wheels come from /opt/veriftools/wheels.
# Idempotent: safe to call at the start of every check command.
set -euo pipefail
HERE="$(cd "$(dirname "${BASH_SOURCE[0]}")" && pwd)"
VENV="$HERE/.venv"
STAMP="$VENV/.ok"
REPO="${VIROCON_REPO:-/repo}"
if [ -f "$STAMP" ] && "$VENV/bin/python" -c 'import z3, numpy, scipy, crosshair' >/dev/null 2>&1; then
  exit 0
fi
(
  flock 9
  if [ -f "$STAMP" ] && "$VENV/bin/python" -c 'import z3, numpy, scipy, crosshair' >/dev/null 2>&1; then
    exit 0
  fi
  rm -rf "$VENV"
  /venv/bin/python -m venv "$VENV"
  SP="$("$VENV/bin/python" -c 'import sysconfig; print(sysconfig.get_paths()["purelib"])')"
  # the repository's own environment (numpy 2.0.0, scipy 1.14.0, sklearn, ...) is layered underneath;
  # virocon itself is NOT put on the path here: checks insert $VIROCON_REPO themselves.
  printf '/venv/lib/python3.12/site-packages\n' > "$SP/verif_overlay.pth"
  PIP_NO_INDEX=1 "$VENV/bin/python" -m pip install --quiet --no-index --find-links /opt/veriftools/wheels \
      z3-solver cvc5 crosshair-tool >/dev/null
  "$VENV/bin/python" - <<'PY'
import numpy, scipy, z3, cvc5, crosshair
assert numpy.__version__ == "2.0.0", numpy.__version__
assert scipy.__version__ == "1.14.0", scipy.__version__
PY
  touch "$STAMP"
) 9>"$HERE/.venv.lock"
