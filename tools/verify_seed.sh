#!/usr/bin/env bash
# verify a sub-agent's seeded change independently: usage verify_seed.sh <out-name> [seed-name]
# (1) demo passes on HEAD (2) patch applies (3) demo fails with patch (4) pinned test-suite still passes
set -uo pipefail
NAME="$1"; SRC="/tmp/seed_out/$NAME"; WT="/tmp/vseed_$NAME"
git -C /repo worktree remove --force "$WT" 2>/dev/null; rm -rf "$WT"
git -C /repo worktree add --detach "$WT" HEAD -q || exit 2
cd "$WT"
DEMO=demo.py; [ -f "$SRC/test_demo.py" ] && DEMO=test_demo.py
cp "$SRC/$DEMO" .
run_demo() { if [ "$DEMO" = test_demo.py ]; then /venv/bin/python -m pytest -q -p no:cacheprovider test_demo.py >/tmp/vseed_$NAME.demo 2>&1; else /venv/bin/python demo.py >/tmp/vseed_$NAME.demo 2>&1; fi; }
run_demo; A=$?
git apply "$SRC/patch.diff" || { echo "PATCH DOES NOT APPLY"; exit 2; }
run_demo; B=$?
tail -3 /tmp/vseed_$NAME.demo
/venv/bin/python -m pytest -q -p no:cacheprovider --timeout=900 -n 8 --deselect tests/test_workflows.py::test_v_hs_hd_contour 2>&1 | tail -2 > /tmp/vseed_$NAME.tests
cat /tmp/vseed_$NAME.tests
echo "demo_on_head_exit=$A demo_with_patch_exit=$B"
cd /; git -C /repo worktree remove --force "$WT"; rm -f /tmp/vseed_$NAME.demo
