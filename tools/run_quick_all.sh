#!/usr/bin/env bash
# run every claimed quick check in /verif against /repo (rewrites evidence/<id>.json); prints one summary line each
cd /verif
for p in $(python3 -c "import json;print(' '.join(c['property_id'] for c in json.load(open('MANIFEST.json'))['checks']))"); do
  s=$(date +%s)
  out=$(VERIF_SEED=${VERIF_SEED:-0} ./check $p --tier quick 2>&1 | grep "tier=\|^VIOLATION\|^HARNESS\|^KNOWN" | cut -c1-200 | tail -3)
  e=$(date +%s)
  echo "== $p $((e-s))s"; echo "$out"
done
