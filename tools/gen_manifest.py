#!/usr/bin/env python3
"""Regenerate /verif/MANIFEST.json from the property modules that exist under vf/props/."""
import json, os, importlib, sys
root = os.path.dirname(os.path.dirname(os.path.abspath(__file__)))
sys.path.insert(0, root)
props = [json.loads(l) for l in open(f"{root}/properties.jsonl")]
NA_REASON = json.load(open(f"{root}/tools/not_applicable.json"))
checks, na = [], []
for p in props:
    pid = p["id"]
    path = f"{root}/vf/props/{pid.lower()}.py"
    if not os.path.exists(path) or pid in NA_REASON.get("force", {}):
        na.append({"property_id": pid, "reason": NA_REASON.get("force", {}).get(pid) or NA_REASON["pending"].get(pid, "check not built yet in this round; solver-based harness planned in DESIGN.md section 3")})
        continue
    src = open(path).read()
    g = {}
    # module constants are plain literals: read them without importing z3 etc.
    import ast
    tree = ast.parse(src)
    for node in tree.body:
        if isinstance(node, ast.Assign) and len(node.targets) == 1 and isinstance(node.targets[0], ast.Name):
            n = node.targets[0].id
            if n in ("LEVEL_TEXT", "LEVEL_NOTE", "TECHNIQUE", "OUTSIDE", "ASSUMPTIONS"):
                g[n] = ast.literal_eval(node.value)
    checks.append({
        "property_id": pid,
        "quick_cmd": f"./check {pid} --tier quick",
        "thorough_cmd": f"./check {pid} --tier thorough",
        "evidence_file": f"/verif/evidence/{pid}.json",
        "replay_cmd_template": f"./check {pid} --replay {{path}}",
        "engine": "symx",
        "level_claimed": {
            "category": "model_checking",
            "text": g.get("LEVEL_TEXT", "bounded symbolic execution of the real virocon functions; every assertion is decided by z3 for all inputs within the stated bounds"),
            "design_ref": f"DESIGN.md section 3, {pid}",
        },
        "level_note": g.get("LEVEL_NOTE", "trusted: z3; contracts of the numpy/scipy stand-ins (validated by vf.selftest and by a concrete validation run per obligation); Real-mode arithmetic; outside the claim: " + "; ".join(g.get("OUTSIDE", []))),
        "technique": g.get("TECHNIQUE", "solver-based: symbolic execution of the real Python code (module globals rebound to symbolic numpy/scipy), z3 SMT queries per assertion, counterexamples replayed concretely"),
    })
man = {
    "version": 1,
    "setup_cmd": "bash /verif/setup.sh",
    "hooks": {
        "guard": "VIROCON_VERIF",
        "enable": "no hooks are needed: checks import virocon from /repo's working tree and rebind module globals at run time (guard reserved, unused)",
        "baseline_off_cmd": "cd /repo && /venv/bin/python -m pytest -ra -q -p no:cacheprovider --timeout=900 --continue-on-collection-errors",
        "source_commits": [],
        "add_only": True,
    },
    "engines": [
        {"name": "symx", "path": "/verif/vf", "serves_properties": [c["property_id"] for c in checks],
         "kind_free_text": "re-execution symbolic executor for Python: virocon's real functions run on z3-backed scalars/arrays; scipy kernels are uninterpreted functions with contract instances; z3 5.1 decides each assertion; counterexamples replayed on the unpatched code"},
    ],
    "checks": checks,
    "not_applicable": na,
    "notes": "exit 0 held / 1 VIOLATION (replayed) / 3 harness error or inconclusive (never success). known_findings.json lists recorded and fixed defects. See DESIGN.md.",
}
json.dump(man, open(f"{root}/MANIFEST.json", "w"), indent=1)
print(len(checks), "checks;", len(na), "not applicable")
