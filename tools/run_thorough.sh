#!/usr/bin/env bash
# dev tool: run every thorough command once, end to end, evidence to a scratch dir; log summary lines
cd /verif
for p in "$@"; do
  s=$(date +%s)
  out=$(VERIF_OUT=/var/tmp/thor timeout 7200 ./check $p --tier thorough 2>&1 | grep "tier=\|^VIOLATION\|^HARNESS\|^KNOWN" | cut -c1-220 | tail -4)
  e=$(date +%s)
  echo "== $p $((e-s))s"; echo "$out"
done
