#!/usr/bin/env python3
"""print the prompt handed to a fresh sub-agent for one property (text of the property + its scratch worktree only)"""
import json, sys
pid = sys.argv[1]
p = [json.loads(l) for l in open('/verif/properties.jsonl') if json.loads(l)['id'] == pid][0]
variant = sys.argv[2] if len(sys.argv) > 2 else ""
print(f"""You are helping to evaluate a verification effort for the open-source Python library virocon (virocon-organization/virocon: fits hierarchical joint distributions to metocean data and computes environmental contours).

You have your own scratch git worktree of the repository at /tmp/seed_{pid}{variant} (a detached checkout; work ONLY inside it; do not touch /repo or /verif, and do not read anything under /verif). Python is /venv/bin/python; run things from inside the worktree with `cd /tmp/seed_{pid}{variant} && /venv/bin/python ...` so that `import virocon` picks up the worktree copy (verify once with `python -c "import virocon; print(virocon.__file__)"`). There is no network.

Here is a semantic property that virocon is supposed to satisfy:

  Title: {p['title']}
  Statement: {p['statement']}
  Scope of the quantifier: {p['quantifier']['text']}

Your task: make a change to the library source (under virocon/ in your worktree) that BREAKS this property while the code still imports/compiles and the existing test suite still passes. The change should look like a realistic programming mistake or regression (a plausible edit a maintainer could make during a refactoring or 'optimisation'), not sabotage with an obvious marker. Most importantly it should need something specific to manifest - a particular unusual input or configuration, a particular parameter region, a multi-step sequence of operations, a particular option combination, or two cooperating sites that each look fine alone - rather than being exposed at once by ordinary use. Keep it small (a few lines). Do NOT edit tests.

Then write a demonstration: a small pytest file or script that FAILS with your change and PASSES on the unchanged code (check both with `git diff > /tmp/seed_out/my.patch; git checkout -- .; run; git apply /tmp/seed_out/my.patch` - do NOT use `git stash`: the stash is shared between worktrees and other agents are working in parallel).

Then run the existing test suite in the worktree to confirm it still passes with your change:
  cd /tmp/seed_{pid}{variant} && /venv/bin/python -m pytest -q -p no:cacheprovider --timeout=900 -n 4 --deselect tests/test_workflows.py::test_v_hs_hd_contour 2>&1 | tail -5
(The deselected test fails on the unchanged code already because a dataset file was emptied. Everything else must still pass: expect 89 passed, 1 skipped, 2 xfailed. The suite takes a few minutes.)

Deliver, in the directory /tmp/seed_out/{pid}{variant}/ (create it):
  - patch.diff   : `git diff` of your change (source only)
  - demo.py      : the demonstration (runnable as `/venv/bin/python demo.py` from the worktree root, exit code non-zero / assertion error with the change, exit 0 without) - or test_demo.py for pytest
  - notes.md     : which clause of the property it breaks, what exactly is needed for it to manifest, why the existing tests do not see it, and the commands you ran with their outcome.
Leave the worktree with your change applied (uncommitted). Finish by reporting a 5-line summary.""")
