#!/usr/bin/env python3
"""dev tool: mutate a scratch copy of /repo (never /repo itself), run a check against it via VIROCON_REPO.
usage: mut.py PID FILE 'old' 'new' [tier]     |   mut.py PID --patch file.diff [tier]"""
import os, shutil, subprocess, sys, tempfile
pid = sys.argv[1]
tmp = tempfile.mkdtemp(prefix="vmut_", dir="/var/tmp")
try:
    subprocess.run(["git", "-C", "/repo", "worktree", "add", "--detach", "-q", tmp + "/r", "HEAD"], check=True)
    repo = tmp + "/r"
    # carry over uncommitted state of /repo's working tree (normally none)
    if sys.argv[2] == "--patch":
        subprocess.run(["git", "-C", repo, "apply", os.path.abspath(sys.argv[3])], check=True)
        tier = sys.argv[4] if len(sys.argv) > 4 else "quick"
    else:
        f, old, new = sys.argv[2:5]
        tier = sys.argv[5] if len(sys.argv) > 5 else "quick"
        p = f"{repo}/virocon/{f}"
        s = open(p).read()
        assert s.count(old) >= 1, f"pattern not found in {f}: {old!r}"
        open(p, "w").write(s.replace(old, new, 1))
    env = dict(os.environ, VIROCON_REPO=repo, VERIF_OUT=tmp + "/out")
    r = subprocess.run(["/verif/check", pid, "--tier", tier], capture_output=True, text=True, env=env)
    out = r.stdout.splitlines()
    nv = len([l for l in out if l.startswith("VIOLATION")])
    summ = [l for l in out if " tier=" in l]
    print(f"exit={r.returncode} violations={nv}; {summ[-1][:160] if summ else r.stderr[-300:]}")
    first = [l for l in out if l.startswith(("[violated]", "[harness", "[unconf", "[inconcl", "[vacuous"))]
    if first:
        print("    " + first[0][:200])
finally:
    subprocess.run(["git", "-C", "/repo", "worktree", "remove", "--force", tmp + "/r"])
    shutil.rmtree(tmp, ignore_errors=True)
