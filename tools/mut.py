#!/usr/bin/env python3
"""dev tool: apply a textual mutation to /repo, run a check, restore.  usage: mut.py PID FILE 'old' 'new' [tier]"""
import subprocess, sys
pid, f, old, new = sys.argv[1:5]
tier = sys.argv[5] if len(sys.argv) > 5 else "quick"
p = f"/repo/virocon/{f}"
s = open(p).read()
assert s.count(old) >= 1, f"pattern not found in {f}: {old!r}"
open(p, "w").write(s.replace(old, new, 1))
try:
    r = subprocess.run(["/verif/check", pid, "--tier", tier], capture_output=True, text=True)
    lines = [l for l in r.stdout.splitlines() if l.startswith(("VIOLATION", "HARNESS", "KNOWN")) or " tier=" in l]
    print(f"exit={r.returncode}", f"{len([l for l in lines if l.startswith('VIOLATION')])} violations;", lines[-1] if lines else r.stderr[-300:])
    firstv = [l for l in r.stdout.splitlines() if l.startswith("[violated]") or l.startswith("[harness") or l.startswith("[unconf")]
    if firstv: print("   ", firstv[0][:200])
finally:
    subprocess.run(["git", "-C", "/repo", "checkout", "--", "."], check=True)
