#!/usr/bin/env python3
"""dev tool: apply every kept seeded change (seeded/<name>/patch.diff) to a scratch worktree of /repo and run the quick
check of its property against it; prints one line per seed.  Nothing is ever applied to /repo itself."""
import json, os, subprocess, sys
names = sorted(os.listdir("/verif/seeded")) if len(sys.argv) < 2 else sys.argv[1:]
for n in names:
    d = f"/verif/seeded/{n}"
    if not os.path.exists(f"{d}/patch.diff"):
        continue
    pid = json.load(open(f"{d}/meta.json"))["property"]
    chk = subprocess.run(["git", "-C", "/repo", "apply", "--check", f"{d}/patch.diff"], capture_output=True, text=True)
    if chk.returncode != 0:
        print(f"{n} {pid}: patch does not apply to the current HEAD (the repaired code moved): skipped", flush=True)
        continue
    r = subprocess.run(["/verif/tools/mut.py", pid, "--patch", f"{d}/patch.diff"], capture_output=True, text=True)
    line = (r.stdout.strip().splitlines() or [r.stderr[-200:]])[0]
    print(f"{n} {pid}: {line[:150]}", flush=True)
