#!/usr/bin/env python3
"""keep a verified seeded change under /verif/seeded/<name>/ : keep_seed.py NAME PID 'needs' 'detected_by'"""
import json, os, shutil, sys
name, pid, needs, detected = sys.argv[1:5]
src, dst = f"/tmp/seed_out/{name}", f"/verif/seeded/{name}"
os.makedirs(dst, exist_ok=True)
for f in os.listdir(src):
    if f in ("patch.diff", "demo.py", "test_demo.py", "notes.md"):
        shutil.copy(f"{src}/{f}", f"{dst}/{f}")
meta = {
    "property": pid, "origin": "fresh sub-agent given only the property text and a scratch worktree",
    "needs_to_manifest": needs,
    "verified_by_me": "tools/verify_seed.sh: demo exits 0 on HEAD, patch applies, demo fails with patch, pinned test suite "
                      "(pytest -n 8, emptied-dataset test deselected) still 90 passed / 1 skipped / 2 xfailed",
    "ran_against_checks": detected,
}
json.dump(meta, open(f"{dst}/meta.json", "w"), indent=1)
print("kept", dst)
