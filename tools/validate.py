#!/usr/bin/env python3
"""validate MANIFEST.json and evidence/*.json against the schemas (run with python3-vt)"""
import json, sys, glob, os
import jsonschema
root = os.path.dirname(os.path.dirname(os.path.abspath(__file__)))
ok = True
ms = json.load(open('/root/.vp/MANIFEST.schema.json')); es = json.load(open('/root/.vp/EVIDENCE.schema.json'))
try:
    jsonschema.validate(json.load(open(f'{root}/MANIFEST.json')), ms); print('MANIFEST ok')
except Exception as e:
    ok = False; print('MANIFEST INVALID', str(e)[:500])
for f in sorted(glob.glob(f'{root}/evidence/*.json')):
    try:
        jsonschema.validate(json.load(open(f)), es); print(os.path.basename(f), 'ok')
    except Exception as e:
        ok = False; print(f, 'INVALID', str(e)[:500])
sys.exit(0 if ok else 1)
