#!/usr/bin/env bash
# dev tool: run every claimed quick check under several VERIF_SEED values (evidence goes to a scratch dir)
cd /verif
for seed in "$@"; do
  for p in $(python3 -c "import json;print(' '.join(c['property_id'] for c in json.load(open('MANIFEST.json'))['checks']))"); do
    out=$(VERIF_SEED=$seed VERIF_OUT=/var/tmp/sweep_$seed timeout 1500 ./check $p --tier quick 2>/dev/null | tail -1 | cut -c1-140)
    echo "seed=$seed $out"
  done
done
rm -rf /var/tmp/sweep_*
