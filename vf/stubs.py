"""Environment stubs (nondeterministic / recording) used by several properties.

Every stub states its contract; the contract is part of the claim of the check that uses it.
"""

from __future__ import annotations

import itertools

import numpy as np
import scipy.stats as _sts
import z3

from . import sym, npx, stx
from .sym import SR, SB, SymArray, HarnessError, engine, lift


# ------------------------------------------------------------------------------------------------
# random number generation
#
# contract (numpy / scipy documentation):
#  * np.random.default_rng(g) returns g itself when g is a Generator, a new Generator seeded with s for an int s;
#  * <family>.rvs(*params, size, random_state=G) is a deterministic function of (params, size, state of G) and
#    advances G; with random_state=<int s> a fresh RandomState(s) is created for that call only;
#    with random_state=None the process-global stream is used.
# A draw is therefore modelled as the uninterpreted function  <family>_rvs(params..., state, k)  for element k,
# where `state` identifies (stream, ordinal of the draw on that stream).


class GenTok:
    """stand-in for numpy.random.Generator: identity + number of draws made so far"""

    def __init__(self, key):
        self.key = key
        self.n = 0

    def take(self):
        t = z3.Real(f"rng[{self.key}]#{self.n}")
        self.n += 1
        return t

    # rejection sampler uses rng.uniform directly
    def uniform(self, low=0.0, high=1.0, size=None):
        st = self.take()
        RNG_LOG.append(("uniform", self.key, self.n - 1, low, high, size))
        shape = () if size is None else (tuple(size) if isinstance(size, (tuple, list)) else (int(size),))
        f = sym.uf("uniform_rvs", 2)
        out = np.empty(shape, dtype=object)
        e = engine()
        for k, idx in enumerate(np.ndindex(shape)):
            u = f(st, z3.RealVal(k))
            e.axiom(z3.And(u >= 0, u < 1))
            out[idx] = lift(low) + (lift(high) - lift(low)) * SR(u)
        return out.view(SymArray) if shape else out[()]

    def __repr__(self):
        return f"GenTok({self.key})"


RNG_LOG = []      # every draw: (kind, stream key, ordinal, ...)
_GLOBAL = GenTok("global")


def reset_rng():
    del RNG_LOG[:]
    _GLOBAL.n = 0


def default_rng(seed=None):
    if isinstance(seed, GenTok):
        return seed
    if seed is None:
        return GenTok(f"fresh-entropy-{len(RNG_LOG)}")
    if isinstance(seed, (SR, SB)):
        raise HarnessError("symbolic seed")
    return GenTok(f"seed{int(seed)}")


def rvs_hook(fam, full, size, random_state):
    """symbolic rvs: see contract above"""
    if isinstance(random_state, GenTok):
        key, ordn = random_state.key, random_state.n
        st = random_state.take()
    elif random_state is None:
        key, ordn = "global", _GLOBAL.n
        st = _GLOBAL.take()
    elif isinstance(random_state, (int, np.integer)):
        key, ordn = f"seed{int(random_state)}", 0
        st = z3.Real(f"rng[seed{int(random_state)}]#0")  # fresh stream restarted for this call
    else:
        raise HarnessError(f"unsupported random_state {random_state!r}")
    RNG_LOG.append(("rvs", key, ordn, fam, full, size))
    shape = () if size is None else (tuple(size) if isinstance(size, (tuple, list)) else (int(size),))
    ps = [npx.deep_strip(npx._symlists(p)) for p in full]
    try:
        bshape = np.broadcast_shapes(shape, *[np.shape(p) for p in ps])
    except ValueError as e:
        raise ValueError(f"rvs: size {shape} does not match parameter shapes: {e}")
    if bshape != shape:
        raise ValueError(f"rvs: size {shape} does not match broadcast parameter shape {bshape}")
    pb = [np.broadcast_to(np.asarray(p, dtype=object), shape) for p in ps]
    f = sym.uf(f"{fam}_rvs", len(full) + 2)
    out = np.empty(shape, dtype=object)
    for k, idx in enumerate(np.ndindex(shape)):
        args = [lift(p[idx]).t for p in pb]
        out[idx] = SR(f(*args, st, z3.RealVal(k)))
    engine().stats["kernels"].add(f"{fam}.rvs")
    return out.view(SymArray) if shape else out[()]


def install_rng():
    reset_rng()
    stx.HOOKS["rvs"] = rvs_hook
    npx.HOOKS["default_rng"] = default_rng


def uninstall_all():
    stx.HOOKS.clear()
    npx.HOOKS.clear()
