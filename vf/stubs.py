"""Environment stubs (nondeterministic / recording) used by several properties.

Every stub states its contract; the contract is part of the claim of the check that uses it.
"""

from __future__ import annotations

import itertools
import math

import numpy as np
import scipy.stats as _sts
import z3

from . import sym, npx, stx
from .sym import SR, SB, SymArray, HarnessError, engine, lift


# ------------------------------------------------------------------------------------------------
# random number generation
#
# contract (numpy / scipy documentation):
#  * np.random.default_rng(g) returns g itself when g is a Generator, a new Generator seeded with s for an int s;
#  * <family>.rvs(*params, size, random_state=G) is a deterministic function of (params, size, state of G) and
#    advances G; with random_state=<int s> a fresh RandomState(s) is created for that call only;
#    with random_state=None the process-global stream is used.
# A draw is therefore modelled as the uninterpreted function  <family>_rvs(params..., state, k)  for element k,
# where `state` identifies (stream, ordinal of the draw on that stream).


def _seed_term(seed):
    if isinstance(seed, (SR, SB)):
        return lift(seed).t
    return z3.RealVal(int(seed))


class GenTok:
    """stand-in for numpy.random.Generator: identity + number of draws made so far.
    state after k draws of the Generator seeded with s  =  gen_state(s, k)   (uninterpreted)"""

    def __init__(self, key, seed_term=None):
        self.key = key
        self.seed_term = seed_term
        self.n = 0

    def take(self):
        if self.seed_term is not None:
            t = sym.uf("gen_state", 2)(self.seed_term, z3.RealVal(self.n))
        else:
            t = z3.Real(f"rng[{self.key}]#{self.n}")
        self.n += 1
        return t

    # rejection sampler uses rng.uniform directly
    def uniform(self, low=0.0, high=1.0, size=None):
        st = self.take()
        RNG_LOG.append(("uniform", self.key, self.n - 1, low, high, size))
        shape = () if size is None else (tuple(size) if isinstance(size, (tuple, list)) else (int(size),))
        f = sym.uf("uniform_rvs", 2)
        out = np.empty(shape, dtype=object)
        e = engine()
        for k, idx in enumerate(np.ndindex(shape)):
            u = f(st, z3.RealVal(k))
            e.axiom(z3.And(u >= 0, u < 1))
            out[idx] = lift(low) + (lift(high) - lift(low)) * SR(u)
        return out.view(SymArray) if shape else out[()]

    def __repr__(self):
        return f"GenTok({self.key})"


RNG_LOG = []      # every draw: (kind, stream key, ordinal, ...)
_GLOBAL = GenTok("global")


def reset_rng():
    del RNG_LOG[:]
    _GLOBAL.n = 0


def default_rng(seed=None):
    if isinstance(seed, GenTok):
        return seed
    if seed is None:
        return GenTok(f"fresh-entropy-{len(RNG_LOG)}")
    st = _seed_term(seed)
    return GenTok(f"seed[{st}]", st)


def rvs_hook(fam, full, size, random_state):
    """symbolic rvs: see contract above"""
    if isinstance(random_state, GenTok):
        key, ordn = random_state.key, random_state.n
        st = random_state.take()
    elif random_state is None:
        key, ordn = "global", _GLOBAL.n
        st = _GLOBAL.take()
    elif isinstance(random_state, (int, np.integer, SR)):
        # a bare int: scipy builds a fresh legacy RandomState(seed) for this call only
        stt = _seed_term(random_state)
        key, ordn = f"legacy-seed[{stt}]", 0
        st = sym.uf("legacy_state", 1)(stt)
    else:
        raise HarnessError(f"unsupported random_state {random_state!r}")
    RNG_LOG.append(("rvs", key, ordn, fam, full, size))
    shape = () if size is None else (tuple(size) if isinstance(size, (tuple, list)) else (int(size),))
    ps = [npx.deep_strip(npx._symlists(p)) for p in full]
    try:
        bshape = np.broadcast_shapes(shape, *[np.shape(p) for p in ps])
    except ValueError as e:
        raise ValueError(f"rvs: size {shape} does not match parameter shapes: {e}")
    if bshape != shape:
        raise ValueError(f"rvs: size {shape} does not match broadcast parameter shape {bshape}")
    pb = [np.broadcast_to(np.asarray(p, dtype=object), shape) for p in ps]
    f = sym.uf(f"{fam}_rvs", len(full) + 2)
    out = np.empty(shape, dtype=object)
    for k, idx in enumerate(np.ndindex(shape)):
        args = [lift(p[idx]).t for p in pb]
        out[idx] = SR(f(*args, st, z3.RealVal(k)))
    engine().stats["kernels"].add(f"{fam}.rvs")
    return out.view(SymArray) if shape else out[()]


def install_rng():
    reset_rng()
    stx.HOOKS["rvs"] = rvs_hook
    npx.HOOKS["default_rng"] = default_rng


def uninstall_all():
    stx.HOOKS.clear()
    npx.HOOKS.clear()


# ------------------------------------------------------------------------------------------------
# scipy.stats.<family>.fit
#
# contract (scipy.stats.rv_continuous.fit documentation, scipy 1.14):
#  * fit(data, *shape_starts, loc=<start>, scale=<start>, f0=.., f<shape>=.., fix_<shape>=.., floc=.., fscale=..,
#    method=.., optimizer=..) returns (shapes..., loc, scale);
#  * a parameter fixed through one of its keywords is returned unchanged;
#  * keywords other than the ones above raise TypeError("Unknown arguments: ..."); more positional start values
#    than shapes raise TypeError; fixing every parameter raises ValueError; the same shape fixed under two names
#    raises ValueError.
# The estimates of the free parameters are arbitrary values (fresh symbols): nothing about optimisation quality
# is modelled.

FIT_LOG = []


def fit_hook(fam, data, args, kw):
    real = getattr(_sts, fam)
    shapes = [s.strip() for s in real.shapes.split(",")] if real.shapes else []
    k = len(shapes)
    if len(args) > k:
        raise TypeError("Too many input arguments.")
    kw = dict(kw)
    start = {"loc": kw.pop("loc", None), "scale": kw.pop("scale", None)}
    kw.pop("optimizer", None)
    kw.pop("method", None)
    fixed = [None] * (k + 2)
    for j, s in enumerate(shapes):
        names = [n for n in (f"f{j}", f"f{s}", f"fix_{s}") if n in kw]
        if len(names) > 1:
            raise ValueError(f"Duplicate entries for {names}.")
        if names:
            fixed[j] = kw.pop(names[0])
    if "floc" in kw:
        fixed[k] = kw.pop("floc")
    if "fscale" in kw:
        fixed[k + 1] = kw.pop("fscale")
    if kw:
        raise TypeError(f"Unknown arguments: {kw}.")
    if all(f is not None for f in fixed):
        raise ValueError("All parameters fixed. There is nothing to optimize.")
    n = len(FIT_LOG)
    out = []
    for i in range(k + 2):
        if fixed[i] is not None:
            out.append(fixed[i])
        else:
            t = z3.Real(f"fit{n}_{fam}_{i}")
            e = engine()
            if i != k:  # shapes and scale are positive
                e.assume(t > 0)
            out.append(SR(t))
    if fam == "vonmises":
        # scipy.stats.vonmises.fit returns the location wrapped into [-pi, pi] - also a fixed one
        # (scipy/stats/_continuous_distns.py: loc = np.mod(loc + np.pi, 2 * np.pi) - np.pi)
        loc = out[k]
        if isinstance(loc, SR):
            if fixed[k] is None:
                engine().assume(z3.And(loc.t >= -sym._q(math.pi), loc.t <= sym._q(math.pi)))
            else:
                turns = z3.ToReal(z3.ToInt((loc.t + sym._q(math.pi)) / (2 * sym._q(math.pi))))
                out[k] = SR(loc.t - 2 * sym._q(math.pi) * turns)
        else:
            out[k] = float(np.mod(float(loc) + np.pi, 2 * np.pi) - np.pi)
        out[k + 1] = 1      # "scale is not handled": scipy returns 1 whatever was passed or fixed
    FIT_LOG.append({"family": fam, "data": data, "shape_starts": tuple(args), "loc_start": start["loc"],
                    "scale_start": start["scale"], "fixed": tuple(fixed), "result": tuple(out)})
    return tuple(out)


def install_fit():
    del FIT_LOG[:]
    stx.HOOKS["fit"] = fit_hook


import contextlib


@contextlib.contextmanager
def record_real_fit(fam):
    """concrete mode: observe what the real scipy.stats.<fam>.fit returns (recording wrapper, same behaviour)"""
    dist = getattr(_sts, fam)
    orig = dist.fit
    log = []

    def wrapper(data, *a, **k):
        r = orig(data, *a, **k)
        log.append({"args": a, "kw": dict(k), "result": tuple(r)})
        return r

    dist.fit = wrapper
    try:
        yield log
    finally:
        del dist.fit


@contextlib.contextmanager
def patch_attr(obj, name, value):
    """harness-level rebinding that is active in symbolic AND concrete mode (recording / probing stubs)"""
    from . import shim
    old = getattr(obj, name)
    setattr(obj, name, value)
    frame = [(obj, name, old, value)]
    shim._ACTIVE.append(frame)      # so that a concrete replay from inside a symbolic run sees the real binding
    try:
        yield
    finally:
        shim._ACTIVE.remove(frame)
        setattr(obj, name, old)


# ------------------------------------------------------------------------------------------------
# scipy.integrate.nquad: probing stub
#
# contract (scipy documentation): nquad(func, ranges, args=()) integrates func(x0, ..., xn, *args) with xk running
# over ranges[k]; returns (value, abserr).  The stub evaluates the integrand once at probe values (one per range,
# supplied by the harness as declared inputs, so that they are symbolic in symbolic mode) and records
# (probe values, integrand value, ranges, args); the returned integral value is a fresh unknown.
# What is decided with it: WHICH integrand is integrated over WHICH variable with WHICH limits - not the value.


class NquadProbe:
    def __init__(self, h, lo=0.2, hi=6.0):
        self.h = h
        self.lo, self.hi = lo, hi
        self.calls = []

    def nquad(self, func, ranges, args=None, opts=None, full_output=False):
        k = len(self.calls)
        ranges = list(ranges)
        ts = [self.h.real(f"t{k}_{j}", self.lo, self.hi) for j in range(len(ranges))]
        extra = tuple(args) if args is not None else ()
        val = func(*ts, *extra)
        if isinstance(val, np.ndarray):   # the wrapped joint pdf returns a length-1 array, as scipy tolerates
            if val.size != 1:
                raise ValueError("integrand must be scalar-valued")
            val = val.reshape(-1)[0]
        if self.h.sym:
            res = SR(z3.Real(f"nquad_result_{k}"))
        else:
            res = 1000.0 + k  # recognisable dummy: the value of the integral is never judged
        self.calls.append({"probe": ts, "integrand": val, "ranges": ranges, "args": extra, "result": res})
        return res, 0.0


class IntegrateProxy:
    def __init__(self, probe):
        self.nquad = probe.nquad


# ------------------------------------------------------------------------------------------------
# matplotlib / savetxt recorders
#
# contract: Axes.plot(x, y, ...), Axes.scatter(x, y, ...), Axes.contour(X, Y, Z, ...), Axes.hist(data, ...) draw
# exactly the data they are handed; np.savetxt(fname, X, fmt, delimiter, header, comments) writes X row by row with
# that format.  The recorders keep the arguments so that they can be compared with the computed values.


class _Dummy:
    """absorbs any styling call (set_marker, set_text, remove, ...)"""

    def __getattr__(self, name):
        def f(*a, **k):
            return _Dummy()
        return f

    def __iter__(self):
        return iter(())

    def __getitem__(self, i):
        return _Dummy()

    def __len__(self):
        return 0


class RecAxes:
    def __init__(self, name="ax"):
        self.name = name
        self.calls = []
        self.lines = []
        self.title = _Dummy()

    def _rec(self, kind, args, kw):
        self.calls.append((kind, args, kw))

    @staticmethod
    def _regular(args):
        """matplotlib converts every data argument with np.atleast_1d / np.asanyarray: a sequence whose elements have
        different shapes (e.g. 1-element arrays mixed with scalars) raises ValueError there (numpy >= 1.24)"""
        def eshape(e):
            if isinstance(e, np.ndarray):
                return e.shape
            if isinstance(e, (list, tuple)):
                return (len(e),)
            return ()

        for a in args:
            if isinstance(a, np.ndarray):
                if a.dtype != object:
                    continue
                elems = list(a.view(np.ndarray).flat)
            elif isinstance(a, (list, tuple)):
                elems = list(a)
            else:
                continue
            shapes = {eshape(e) for e in elems}
            if len(shapes) > 1:
                raise ValueError("setting an array element with a sequence. The requested array has an inhomogeneous "
                                 f"shape (element shapes {sorted(shapes)})")

    def plot(self, *args, **kw):
        self._regular(args)
        self._rec("plot", args, kw)
        ln = _Dummy()
        self.lines.append(ln)
        return [ln]

    def scatter(self, *args, **kw):
        self._regular(args)
        self._rec("scatter", args, kw)
        return _Dummy()

    def contour(self, *args, **kw):
        self._rec("contour", args, kw)
        c = _Dummy()
        c.collections = []
        return c

    def hist(self, *args, **kw):
        self._rec("hist", args, kw)
        return _Dummy()

    def get_lines(self):
        return self.lines if self.lines else [_Dummy()]

    def get_xlim(self):
        return (0.0, 1.0)

    def get_ylim(self):
        return (0.0, 1.0)

    def of(self, kind):
        return [c for c in self.calls if c[0] == kind]

    def __getattr__(self, name):
        if name.startswith("__"):
            raise AttributeError(name)

        def f(*a, **k):
            self.calls.append((name, a, k))
            return _Dummy()
        return f


class RecPlt:
    def __init__(self):
        self.figs = []
        self.axes = []

    def subplots(self, nrows=1, ncols=1, squeeze=True, **kw):
        fig = _Dummy()
        self.figs.append(fig)
        if nrows == 1 and ncols == 1 and squeeze:
            ax = RecAxes(f"ax{len(self.axes)}")
            self.axes.append(ax)
            return fig, ax
        arr = np.empty((nrows, ncols), dtype=object)
        for i in range(nrows):
            for j in range(ncols):
                arr[i, j] = RecAxes(f"ax{len(self.axes)}")
                self.axes.append(arr[i, j])
        return fig, arr

    def Line2D(self, *a, **k):
        return _Dummy()

    def __getattr__(self, name):
        def f(*a, **k):
            return _Dummy()
        return f


# ------------------------------------------------------------------------------------------------
# scipy.optimize.curve_fit / minimize
#
# contract (scipy documentation): curve_fit(f, xdata, ydata, p0, sigma=None, bounds=(-inf, inf)) returns (popt, pcov)
# with len(popt) == len(p0); minimize(fun, x0, method, bounds, constraints, options) returns a result with .x,
# .success, .message.  The optimum itself is an arbitrary vector (fresh symbols): optimiser quality is not modelled.


class OptimizerLog:
    """recording stand-in for curve_fit and minimize, usable in symbolic and concrete mode"""

    def __init__(self, h, real_curve_fit=None, real_minimize=None):
        self.h = h
        self.calls = []
        self.real_curve_fit = real_curve_fit
        self.real_minimize = real_minimize

    def _fresh(self, n, tag):
        k = len(self.calls)
        return [SR(z3.Real(f"{tag}{k}_{i}")) for i in range(n)]

    def curve_fit(self, f, xdata, ydata, p0=None, sigma=None, bounds=(-np.inf, np.inf), **kw):
        rec = {"kind": "curve_fit", "f": f, "x": xdata, "y": ydata, "p0": None if p0 is None else tuple(p0),
               "sigma": sigma, "bounds": bounds, "kw": kw,
               # values at the time of the call (the arrays may be modified in place afterwards - or before)
               "x_at_call": list(np.ravel(npx.deep_strip(xdata))), "y_at_call": list(np.ravel(npx.deep_strip(ydata))),
               "sigma_at_call": None if sigma is None else list(np.ravel(npx.deep_strip(sigma)))}
        if self.h.sym:
            popt = np.empty(len(p0), dtype=object)
            popt[:] = self._fresh(len(p0), "popt")
            popt = popt.view(SymArray)
            pcov = None
        else:
            # concrete mode: a recognisable pseudo-optimum (the real optimiser may legitimately fail to converge on
            # arbitrary replay data; its quality is outside every claim that uses this stub)
            k = len(self.calls)
            popt = np.array([float(v) + 0.137 * (i + 1) + 0.011 * k for i, v in enumerate(p0)])
            pcov = None
        rec["popt"] = popt
        self.calls.append(rec)
        return popt, pcov

    def minimize(self, fun, x0, args=(), method=None, bounds=None, constraints=(), options=None, **kw):
        rec = {"kind": "minimize", "fun": fun, "x0": tuple(x0), "method": method, "bounds": bounds,
               "constraints": constraints, "options": options, "kw": kw}
        if self.h.sym:
            x = np.empty(len(x0), dtype=object)
            x[:] = self._fresh(len(x0), "xopt")

            class R:
                pass

            r = R()
            r.x, r.success, r.message = x.view(SymArray), True, "stub"
        else:
            class R:
                pass

            k = len(self.calls)
            r = R()
            r.x = np.array([float(v) + 0.137 * (i + 1) + 0.011 * k for i, v in enumerate(x0)])
            r.success, r.message = True, "stub"
        rec["x"] = r.x
        self.calls.append(rec)
        return r


@contextlib.contextmanager
def optimizer_stubs(h):
    """rebinding of virocon._fitting.curve_fit / minimize for one harness (both modes)"""
    from . import shim
    F = shim.mod("_fitting")
    log = OptimizerLog(h, real_curve_fit=F.curve_fit, real_minimize=F.minimize)
    with patch_attr(F, "curve_fit", log.curve_fit), patch_attr(F, "minimize", log.minimize):
        yield log
