"""Loop-body extraction: run ONE iteration of a loop of the current source from an arbitrary (symbolic) state.

The loop is located by the text of its header in the current source of the function; its body is compiled against
the function's own module globals (so the rebinding of `np` etc. applies) and executed on a namespace dict that
plays the role of the local variables.  If the header cannot be found the harness is out of date: fail closed."""

from __future__ import annotations

import ast
import inspect
import textwrap

from .sym import HarnessError


def loop_body(func, header_contains, occurrence=0):
    """returns step(ns: dict) -> ('fallthrough' | 'break'), executing the loop body once in ns"""
    src = textwrap.dedent(inspect.getsource(func))
    tree = ast.parse(src)
    hits = []
    for node in ast.walk(tree):
        if isinstance(node, (ast.While, ast.For)):
            seg = ast.get_source_segment(src, node.test if isinstance(node, ast.While) else node.iter) or ""
            if header_contains in seg:
                hits.append(node)
    if len(hits) <= occurrence:
        raise HarnessError(f"harness out of date: no loop with header containing {header_contains!r} in {func.__qualname__}")
    node = hits[occurrence]
    # assignments that precede the loop (at function level or inside the loops enclosing it): if a refactoring hoists
    # a computation out of the loop body, the body refers to names the harness does not know - they are then computed
    # by the function's own assignments from the state the harness supplies (a name the harness supplies is never
    # overwritten)
    pre = []

    def collect(stmts):
        for st in stmts:
            if st is node:
                return True
            if isinstance(st, ast.Assign) and all(isinstance(t, (ast.Name, ast.Tuple)) for t in st.targets):
                pre.append(st)
            for fld in ("body", "orelse"):
                sub = getattr(st, fld, None)
                if isinstance(sub, list) and not isinstance(st, (ast.FunctionDef, ast.ClassDef)):
                    mark = len(pre)
                    if collect(sub):
                        return True
                    if isinstance(st, (ast.If, ast.Try)):
                        del pre[mark:]          # assignments of a branch that does not lead to the loop
        return False

    fdef = next(n for n in ast.walk(tree) if isinstance(n, ast.FunctionDef))
    collect(fdef.body)

    def _targets(st):
        out = []
        for t in st.targets:
            out += [e.id for e in ast.walk(t) if isinstance(e, ast.Name)]
        return out

    def _needs(st):
        return {e.id for e in ast.walk(st.value) if isinstance(e, ast.Name)}

    pre_code = [(st, _targets(st), _needs(st),
                 compile(ast.fix_missing_locations(ast.Module(body=[st], type_ignores=[])), "<prologue>", "exec"))
                for st in pre]
    flag = ast.parse("__fell_through__ = True").body[0]
    wrapper = ast.While(test=ast.Constant(True), body=list(node.body) + [flag, ast.Break()], orelse=[])
    mod = ast.Module(body=[ast.parse("__fell_through__ = False").body[0], wrapper], type_ignores=[])
    ast.fix_missing_locations(mod)
    code = compile(mod, f"<loop body of {func.__qualname__}>", "exec")
    test_src = ast.get_source_segment(src, node.test) if isinstance(node, ast.While) else None
    test_code = compile(ast.Expression(ast.parse(test_src, mode="eval").body), "<loop test>", "eval") if test_src else None
    g = func.__globals__

    def step(ns):
        import builtins
        progress = True
        while progress:
            progress = False
            for st, tg, need, c in pre_code:
                if all(t in ns for t in tg):
                    continue
                if all((n in ns) or (n in g) or hasattr(builtins, n) for n in need):
                    exec(c, g, ns)
                    progress = True
        exec(code, g, ns)
        return "fallthrough" if ns.pop("__fell_through__") else "break"

    def test(ns):
        return eval(test_code, g, ns)

    step.test = test
    step.source = ast.get_source_segment(src, node)
    return step
