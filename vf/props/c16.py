"""C16 - transformed models are exact push-forwards; Monte-Carlo conditionals match them (algebra, wiring, RNG threading)."""

from __future__ import annotations

import math
import warnings

import numpy as np
import z3

from .. import sym, shim, stubs, npx
from .families import FAMILIES

PROPERTY = "C16"
LEVEL_TEXT = ("nonlinear real arithmetic over the real closed-form transformations (sqrt as r>=0, r^2=s; module constant "
              "2 pi/g symbolic), the Jacobian by executing the real _transform on dual numbers, term-level push-forward "
              "and sampling wiring, symbolic seeds through the IFORM branch of transformed models; Monte-Carlo agreement "
              "clauses are not decided")
FUNCTIONS = [
    "variable_transform.hs_tz_to_s_d", "variable_transform.s_d_to_hs_tz", "variable_transform.hs_tz_to_hs_s",
    "variable_transform.hs_s_to_hs_tz", "variable_transform.hs_tz_to_s_tz", "variable_transform.s_tz_to_hs_tz",
    "predefined.get_Windmeier_EW_Hs_S", "predefined.get_Nonzero_EW_Hs_S", "jointmodels.TransformedModel.__init__",
    "jointmodels.TransformedModel.pdf", "jointmodels.TransformedModel.draw_sample",
    "jointmodels.MultivariateModel.conditional_sample", "jointmodels.MultivariateModel.conditional_icdf",
    "jointmodels.MultivariateModel.marginal_icdf", "contours.IFORMContour._compute",
]
BOUNDS = {
    "quick": "round trips and Jacobian for all hs, tz, s, d > 0 (symbolic, exact); push-forward and sampling wiring on "
             "both predefined EW models with symbolic parameters and 2 evaluation points; conditional_sample: 3-D "
             "model, every dim, symbolic given, 3 symbolic uniforms; IFORM branch: 3 points, symbolic seed in [0, 1000]",
    "thorough": "plus vectorised round trips (2 elements, element-wise = scalar); the algebra is unbounded in the values, "
                "only the array sizes are bounds",
}
OUTSIDE = [
    "NOT DECIDED: that the density integrates to one; DKW agreement of cdf / empirical cdf / samples; whether the x_max "
    "shrinking search and the 1000-point f_max grid truncate a narrow conditional density; Monte-Carlo error of contours",
    "floating-point evaluation of the closed forms (Real mode)",
]
ASSUMPTIONS = ["sqrt(s) is the unique r >= 0 with r^2 = s; module constants factor / factor_sqrt are 2 pi/9.81 and its "
               "root (checked concretely to 1e-15) and are symbolic F > 0, sqrt(F) in the algebra"]


def _vt():
    return shim.mod("variable_transform")


import contextlib


@contextlib.contextmanager
def _Consts(h):
    """factor := F (symbolic, > 0), factor_sqrt := sqrt(F) for the duration of one harness (sym mode)"""
    VT = _vt()
    h.check(abs(VT.factor - 2 * math.pi / 9.81) < 1e-15 and abs(VT.factor_sqrt ** 2 - VT.factor) < 1e-15,
            "module-constants-are-2pi/g-and-its-root")
    if not h.sym:
        yield VT.factor
        return
    F = h.real("F", 0.1, 2.0)
    with stubs.patch_attr(VT, "factor", F), stubs.patch_attr(VT, "factor_sqrt", np.sqrt(F)):
        yield F


PAIRS = {
    # name: (forward, inverse, domain of the forward arguments)
    "hs_tz<->s_d": ("hs_tz_to_s_d", "s_d_to_hs_tz"),
    "hs_tz<->hs_s": ("hs_tz_to_hs_s", "hs_s_to_hs_tz"),
    "hs_tz<->s_tz": ("hs_tz_to_s_tz", "s_tz_to_hs_tz"),
}


def h_round_trip(h):
    VT = _vt()
    fwd, inv = PAIRS[h.cfg["pair"]]
    if h.sym:
        h.E.flatten_div = True
    with _Consts(h):
        if h.cfg.get("vector"):
            # array arguments: element-wise, element k of the result depends on element k of the inputs only
            a = h.arr([h.real("hs0", 1e-3, 100.0), h.real("hs1", 1e-3, 100.0)])
            b = h.arr([h.real("tz0", 1e-3, 100.0), h.real("tz1", 1e-3, 100.0)])
            u, v = getattr(VT, fwd)(a, b)
            a2, b2 = getattr(VT, inv)(u, v)
            u0, v0 = getattr(VT, fwd)(a[0], b[0])
            h.close(u[0], u0, "vectorised-equals-scalar")
            h.close(v[0], v0, "vectorised-equals-scalar")
        elif h.cfg["direction"] == "inverse(transform(x))":
            a, b = h.real("hs", 1e-3, 100.0), h.real("tz", 1e-3, 100.0)
            u, v = getattr(VT, fwd)(a, b)
            a2, b2 = getattr(VT, inv)(u, v)
        else:
            # the other way round: start in the transformed space
            names = {"hs_tz<->s_d": ("s", "d"), "hs_tz<->hs_s": ("hs", "s"), "hs_tz<->s_tz": ("s", "tz")}[h.cfg["pair"]]
            a, b = h.real(names[0], 1e-3, 100.0), h.real(names[1], 1e-3, 100.0)
            u, v = getattr(VT, inv)(a, b)
            a2, b2 = getattr(VT, fwd)(u, v)
        h.reach()
        h.close(a2, a, "round-trip-first-coordinate", rtol=1e-9)
        h.close(b2, b, "round-trip-second-coordinate", rtol=1e-9)


class Dual:
    """value + gradient w.r.t. (hs, tz): forward-mode differentiation of the REAL transform code"""
    __array_priority__ = 2000

    def __init__(self, v, g):
        self.v, self.g = v, tuple(g)

    @staticmethod
    def lift(x):
        return x if isinstance(x, Dual) else Dual(x, (0.0, 0.0))

    def __add__(self, o):
        if isinstance(o, np.ndarray):
            return NotImplemented
        o = Dual.lift(o)
        return Dual(self.v + o.v, (self.g[0] + o.g[0], self.g[1] + o.g[1]))

    __radd__ = __add__

    def __sub__(self, o):
        if isinstance(o, np.ndarray):
            return NotImplemented
        o = Dual.lift(o)
        return Dual(self.v - o.v, (self.g[0] - o.g[0], self.g[1] - o.g[1]))

    def __rsub__(self, o):
        return Dual.lift(o) - self

    def __mul__(self, o):
        if isinstance(o, np.ndarray):
            return NotImplemented
        o = Dual.lift(o)
        return Dual(self.v * o.v, (self.g[0] * o.v + self.v * o.g[0], self.g[1] * o.v + self.v * o.g[1]))

    __rmul__ = __mul__

    def __truediv__(self, o):
        if isinstance(o, np.ndarray):
            return NotImplemented
        o = Dual.lift(o)
        return Dual(self.v / o.v, ((self.g[0] * o.v - self.v * o.g[0]) / (o.v * o.v),
                                   (self.g[1] * o.v - self.v * o.g[1]) / (o.v * o.v)))

    def __rtruediv__(self, o):
        return Dual.lift(o) / self

    def __pow__(self, k):
        if not isinstance(k, int) or k < 1:
            raise sym.HarnessError("dual power")
        r = self
        for _ in range(k - 1):
            r = r * self
        return r

    def sqrt(self):
        r = np.sqrt(self.v)
        return Dual(r, (self.g[0] / (2 * r), self.g[1] / (2 * r)))


def h_jacobian(h):
    """|det d transform/dx| computed from the real _transform equals the supplied _jacobian, for all hs, tz > 0"""
    P = shim.mod("predefined")
    tr = getattr(P, h.cfg["getter"])()[3]
    if h.sym:
        h.E.flatten_div = False
    with _Consts(h):
        hs, tz = h.real("hs", 1e-3, 100.0), h.real("tz", 1e-3, 100.0)
        x = np.empty((1, 2), dtype=object)
        x[0, 0], x[0, 1] = Dual(hs, (1.0, 0.0)), Dual(tz, (0.0, 1.0))
        if h.sym:
            x = x.view(sym.SymArray)
        y = tr["transform"](x)
        y0, y1 = y[0, 0], y[0, 1]
        det = y0.g[0] * y1.g[1] - y0.g[1] * y1.g[0]
        pt = h.arr([[hs, tz]])
        jac = tr["jacobian"](pt)
        j0 = jac[0] if np.ndim(jac) else jac
        h.reach()
        h.close(det * det, j0 * j0, "jacobian-is-abs-det-of-the-transform-derivative", rtol=1e-9, rational=True)
        h.check(j0 > 0, "jacobian-positive")
        # and the transform maps to (hs, steepness)
        h.close(y0.v, hs, "transform-keeps-hs")


def _ew_model(h, getter):
    P = shim.mod("predefined")
    vc = shim.virocon()
    descs, fit_d, sem, tr = getattr(P, getter)()
    model = vc.GlobalHierarchicalModel(descs)
    d0 = model.distributions[0]
    d0.alpha, d0.beta, d0.delta = h.real("a0", 0.5, 3.0), h.real("b0", 0.7, 3.0), h.real("d0", 0.5, 4.0)
    cd = model.distributions[1]
    for pname, dep in cd.conditional_parameters.items():
        dep.parameters = {k: h.real(f"{pname}_{k}", 0.05, 1.5) for k in dep.parameters}
    return model, tr


def h_push_forward(h):
    vc = shim.virocon()
    model, tr = _ew_model(h, h.cfg["getter"])
    t = vc.TransformedModel(model, tr["transform"], tr["inverse"], tr["jacobian"], precision_factor=0.2, random_state=42)
    pts = [[h.real(f"hs{k}", 0.3, 8.0), h.real(f"tz{k}", 2.0, 14.0)] for k in range(2)]
    x = h.arr(pts)
    got = t.pdf(x)
    ref = model.pdf(tr["transform"](x)) * tr["jacobian"](x)
    h.reach()
    h.close(got, ref, "pdf-is-base-density-at-transform-times-jacobian")
    VT = _vt()
    for k in range(2):
        hs, tz = pts[k]
        s = VT.factor * hs / (tz * tz)
        base = model.pdf(h.arr([[hs, s]]))
        h.close(got[k], base[0] * (2 * VT.factor * hs / (tz * tz * tz)), "push-forward-density-formula", rtol=1e-9)
    # samples are the inverse-transformed samples of the base model
    n = 2
    if h.sym:
        stubs.reset_rng()
    else:
        np.random.seed(3)
    seen = []
    orig_draw = model.draw_sample

    def rec_draw(n_, **kw):
        seen.append(kw)
        return orig_draw(n_, **kw)

    model.draw_sample = rec_draw
    smp = t.draw_sample(n)
    model.draw_sample = orig_draw
    if h.sym:
        stubs.reset_rng()
    else:
        np.random.seed(3)
    h.check(len(seen) == 1, "one-base-sample-per-draw")
    # the base sample drawn with whatever seed the transformed model forwards (none, or its own random_state)
    rs = seen[0].get("random_state") if seen else None
    h.check(rs is None or rs == 42, "forwarded-seed-is-the-models-random_state", f"{rs}")
    ref_s = tr["inverse"](orig_draw(n, random_state=rs))
    h.check(np.shape(smp) == (n, 2), "sample-shape")
    h.close(smp, ref_s, "samples-are-inverse-transformed-base-samples")


def h_transformed_cdf(h):
    """TransformedModel.cdf integrates its own pdf over the lower-left orthant; empirical_cdf counts sample rows"""
    vc = shim.virocon()
    model, tr = _ew_model(h, h.cfg["getter"])
    t = vc.TransformedModel(model, tr["transform"], tr["inverse"], tr["jacobian"], precision_factor=0.2, random_state=1)
    pt = [h.real("hs", 0.5, 6.0), h.real("tz", 3.0, 12.0)]
    probe = stubs.NquadProbe(h, lo=0.5, hi=9.0)
    with stubs.patch_attr(shim.mod("jointmodels"), "integrate", stubs.IntegrateProxy(probe)):
        got = t.cdf(h.arr(pt))
    h.reach()
    h.check(len(probe.calls) == 1 and len(probe.calls[0]["ranges"]) == 2, "one-2-D-integral")
    c = probe.calls[0]
    ref = t.pdf(h.arr([[c["probe"][0], c["probe"][1]]]))
    h.close(c["integrand"], ref[0], "integrand-is-the-transformed-pdf-in-model-order")
    for j in range(2):
        h.close(c["ranges"][j][0], 0.0, "lower-limit-zero")
        h.close(c["ranges"][j][1], pt[j], "upper-limit-is-own-coordinate")
    h.close(got[0], c["result"], "cdf-is-the-integral")
    # empirical cdf: fraction of sample rows that are <= the point in every coordinate
    srows = [[h.real(f"s{r}_{k}", 0.1, 9.0) for k in range(2)] for r in range(3)]
    for r in range(3):
        for k in range(2):   # away from ties so that a float replay takes the same branch
            h.assume(sym.Or(srows[r][k] - pt[k] >= 1e-3, srows[r][k] - pt[k] <= -1e-3) if h.sym else abs(srows[r][k] - pt[k]) >= 1e-4)
    e = t.empirical_cdf(h.arr(pt), sample=h.arr(srows))
    cnt = 0
    for r in range(3):
        inside = sym.And(srows[r][0] <= pt[0], srows[r][1] <= pt[1]) if h.sym else (srows[r][0] <= pt[0] and srows[r][1] <= pt[1])
        cnt = cnt + (sym.If(inside, 1, 0) if h.sym else (1 if inside else 0))
    ev = e[0] if np.ndim(e) else e
    h.close(ev, cnt / 3, "empirical-cdf-is-the-fraction-of-sample-rows-below-the-point")


def h_conditional_quantiles(h):
    """Monte-Carlo conditional cdf / icdf: sample size rule, own seed, quantile / fraction of the conditional sample"""
    nd = 2
    m = _RecModel(nd, 0.5)
    log = []
    vals = [h.real(f"c{k}", 0.2, 9.0) for k in range(3)]
    h.distinct(vals, 0.01)

    def fake_sample(n, dim, given, *, random_state=None, **kw):
        log.append({"n": n, "dim": dim, "given": given, "rs": random_state})
        return h.arr(vals)

    m.conditional_sample = fake_sample
    p = [0.0004, 0.99999]     # both tails beyond the 100000 floor, so that the tail rule is visible in n
    pf = h.cfg["pf"]
    g = [h.real("g0", 0.5, 5.0), h.real("g1", 0.5, 5.0)]
    given = h.arr([[g[0]], [g[1]]])
    x = m.conditional_icdf(np.array(p), 1, given, precision_factor=pf, random_state=11)
    h.reach()
    h.check(len(log) == 2, "one-conditional-sample-per-point")
    for k in range(2):
        ps = p[k] if p[k] < 0.5 else 1 - p[k]
        want_n = int(min(max((1 / ps) * 100 * pf, 100_000), 10_000_000))
        h.check(log[k]["n"] == want_n, "sample-size-rule", f"{log[k]['n']} vs {want_n}")
        h.check(log[k]["dim"] == 1 and log[k]["rs"] == 11, "own-dimension-and-seed")
        h.close(np.ravel(npx.deep_strip(log[k]["given"])), [g[k]], "own-conditioning-value")
        if h.sym:
            ref = npx.quantile(h.arr(vals), p[k])
        else:
            ref = np.quantile(vals, p[k])
        h.close(x[k], ref, "quantile-of-the-conditional-sample")
    del log[:]
    xq = [h.real("xq0", 0.2, 9.0), h.real("xq1", 0.2, 9.0)]
    for q in xq:
        for v in vals:
            h.assume(sym.Or(q - v >= 1e-3, q - v <= -1e-3) if h.sym else abs(q - v) >= 1e-4)
    if h.sym:
        xarr = np.array(xq, dtype=object).view(sym.SymArray)
    else:
        xarr = np.array(xq)
    cdf = m.conditional_cdf(xarr, 1, given, random_state=11)
    for k in range(2):
        cnt = 0
        for v in vals:
            c = (v <= xq[k])
            cnt = cnt + (sym.If(c, 1, 0) if h.sym else (1 if c else 0))
        h.check(log[k]["n"] == 100_000 and log[k]["rs"] == 11, "cdf-sample-size-and-seed")
        h.close(cdf[k] * 100_000, cnt, "conditional-cdf-counts-the-sample-below-x")
    # integer-typed evaluation points (an integer grid of x values): same fractions, not truncated to integers
    del log[:]
    xi = [3, 6]
    for q in xi:
        for v in vals:
            h.assume(sym.Or(q - v >= 1e-3, q - v <= -1e-3) if h.sym else abs(q - v) >= 1e-4)
    cdf = m.conditional_cdf(np.array(xi), 1, given, random_state=11)
    for k in range(2):
        cnt = 0
        for v in vals:
            c = (v <= xi[k])
            cnt = cnt + (sym.If(c, 1, 0) if h.sym else (1 if c else 0))
        h.close(cdf[k] * 100_000, cnt, "conditional-cdf-at-integer-typed-points")


class _RecModel:
    """a MultivariateModel whose joint pdf records the points it is asked for"""

    def __new__(cls, nd, value):
        J = shim.mod("jointmodels")

        class R(J.MultivariateModel):
            n_dim = nd

            def __init__(self):
                self.asked = []

            def pdf(self, x):
                self.asked.append(x)
                return np.full(len(x), value)

            def marginal_pdf(self, *a, **k):
                raise NotImplementedError

            def draw_sample(self, *a, **k):
                raise NotImplementedError

        return R()


class _Rng:
    def __init__(self, xs, ys):
        self.vals = [xs, ys]
        self.calls = []

    def uniform(self, low, high, size=None):
        self.calls.append((low, high, size))
        v = self.vals[(len(self.calls) - 1) % 2]
        return v


def h_conditional_sample(h):
    """rejection sampler: the conditioning values go into the other columns in order; a draw is kept iff u < pdf"""
    nd, dim = 3, h.cfg["dim"]
    level = 0.5
    m = _RecModel(nd, level)
    given = [h.real(f"g{j}", 0.5, 5.0) for j in range(nd - 1)]
    ux = [h.real(f"x{k}", 0.1, 9.0) for k in range(3)]
    uy = [h.real(f"u{k}", 0.0, 0.999) for k in range(3)]
    for u in uy:      # keep away from the threshold so that a replay in floats takes the same branch
        h.assume(sym.Or(u >= level + 1e-3, u <= level - 1e-3) if h.sym else abs(u - level) >= 1e-4)
    rng = _Rng(h.arr(ux), h.arr(uy))
    J = shim.mod("jointmodels")

    class FakeRandom:
        Generator = np.random.Generator

        @staticmethod
        def default_rng(rs=None):
            return rng

    class NPw:
        """numpy (or its proxy) with default_rng replaced: the random source is the harness's"""
        def __init__(self, base):
            self.base = base
            self.random = FakeRandom

        def __getattr__(self, k):
            return getattr(self.base, k)

    want = [ux[k] for k in range(3) if (bool(uy[k] < level))]
    with warnings.catch_warnings():
        warnings.simplefilter("ignore")
        with stubs.patch_attr(J, "np", NPw(J.np)):
            try:
                smp = m.conditional_sample(1, dim, h.arr(given), random_state=7, max_iter=3)
            except J.CouldNotSampleError:
                h.check(len(want) == 0, "could-not-sample-only-if-nothing-was-accepted")
                return
    h.reach()
    # every joint-pdf evaluation puts the conditioning values into the non-dim columns, in order
    for xh in m.asked:
        others = [c for c in range(nd) if c != dim]
        for row in range(min(2, len(xh))):
            for jx, c in enumerate(others):
                h.close(xh[row][c] if not hasattr(xh, "shape") else xh[row, c], given[jx], "given-values-in-the-other-columns-in-order")
    last = m.asked[-1]
    h.close([last[k, dim] for k in range(3)], ux, "candidate-values-in-the-own-column")
    h.check(len(want) >= 1 and len(smp) == 1, "requested-number-of-accepted-draws", f"{len(smp)} returned, {len(want)} accepted")
    if want and len(smp):
        h.close(smp[0], want[0], "accepted-iff-u-below-density")


def h_iform_branch(h):
    """IFORM on a transformed model: marginal quantile for variable 0, conditional quantiles given the already
    computed coordinates for the others; every random draw is seeded from the model's random_state"""
    C = shim.mod("contours")
    n = 3
    seed = h.integer("seed", 0, 1000) if h.cfg["seed"] == "symbolic" else int(h.cfg["seed"])
    pf = h.real("pf", 0.1, 1.0)
    alpha = h.real("alpha", 0.01, 0.4)
    log = []

    class TransformedModel:          # IFORM dispatches on the class name
        n_dim = 2
        precision_factor = pf
        random_state = None

        def marginal_icdf(self, p, dim, precision_factor=1, **kw):
            vals = h.arr([h.real(f"q0_{k}", 0.2, 9.0) for k in range(n)])
            log.append(("marginal", p, dim, precision_factor, kw, vals))
            return vals

        def conditional_icdf(self, p, dim, given, precision_factor=1.0, *, random_state=None):
            vals = h.arr([h.real(f"q{dim}_{k}", 0.2, 9.0) for k in range(n)])
            log.append(("conditional", p, dim, given, random_state, vals))
            return vals

    J = shim.mod("jointmodels")
    real_t = J.TransformedModel.__new__(J.TransformedModel)
    J.TransformedModel.__init__(real_t, TransformedModel(), None, None, None, precision_factor=pf, random_state=seed)
    m = TransformedModel()
    m.random_state = real_t.random_state          # what the real constructor stores for this seed
    c = C.IFORMContour(m, alpha, n_points=n)
    h.reach()
    h.check([e[0] for e in log] == ["marginal", "conditional"], "marginal-then-conditional")
    beta = h.K.norm.ppf(1 - alpha, 0, 1)
    ang = [2 * math.pi * k / n for k in range(n)]
    p0 = [h.K.norm.cdf(beta * math.cos(a), 0, 1) for a in ang]
    p1 = [h.K.norm.cdf(beta * math.sin(a), 0, 1) for a in ang]
    h.close(list(log[0][1]), p0, "marginal-quantile-of-first-sphere-coordinate", rtol=1e-7, approx=True)
    h.check(log[0][2] == 0, "marginal-of-variable-0")
    h.close(log[0][3], pf, "precision-factor-forwarded")
    h.close(list(log[1][1]), p1, "conditional-quantile-of-second-sphere-coordinate", rtol=1e-7, approx=True)
    h.check(log[1][2] == 1, "conditional-of-variable-1")
    h.close(np.ravel(npx.deep_strip(log[1][3])), list(np.ravel(npx.deep_strip(log[0][5]))), "given-are-the-computed-first-coordinates")
    h.close(c.coordinates[:, 0], log[0][5], "first-coordinate-is-the-marginal-quantile")
    h.close(c.coordinates[:, 1], log[1][5], "second-coordinate-is-the-conditional-quantile")
    rs = log[1][4]
    ok = rs is not None and not isinstance(rs, bool)
    h.check(ok, "conditional-draws-seeded-from-the-model-random_state", f"random_state handed on: {rs!r}")
    if ok:
        h.close(rs, seed, "conditional-draws-seeded-from-the-model-random_state")


def h_marginal_seeded(h):
    """the Monte-Carlo marginal quantile of a transformed model is reproducible when the model's random_state is set"""
    vc = shim.virocon()
    J = shim.mod("jointmodels")
    draws = []

    class Base:
        n_dim = 2

        def draw_sample(self, n, *, random_state=None):
            draws.append(random_state)
            return np.ones((3, 2))

    t = vc.TransformedModel(Base(), lambda x: x, lambda x: x, lambda x: 1.0, precision_factor=0.1, random_state=42)
    t.marginal_icdf(np.array([0.5]), 0, precision_factor=0.1)
    h.check(len(draws) == 1 and draws[0] is not None, "marginal-draw-seeded-from-the-model-random_state",
            f"base.draw_sample received random_state={draws}")


def h_big_draw(h):
    """a sample larger than any internal block size is still ONE stream of base realisations: either one base draw of
    the requested size, or several draws that do not restart the same integer seed (recording base model, concrete)"""
    vc = shim.virocon()
    draws = []

    class Base:
        n_dim = 2

        def draw_sample(self, n, *, random_state=None):
            draws.append((int(n), random_state))
            return np.ones((int(n), 2))

    n = h.cfg["n"]
    t = vc.TransformedModel(Base(), lambda x: x, lambda x: x, lambda x: 1.0, precision_factor=1.0, random_state=h.cfg["seed"])
    smp = t.draw_sample(n)
    h.reach()
    h.check(np.shape(smp) == (n, 2), "requested-size-honoured", f"{np.shape(smp)}")
    h.check(sum(k for k, _ in draws) == n, "base-realisations-add-up-to-the-requested-size", f"{draws[:4]}")
    ints = [rs for _, rs in draws if isinstance(rs, (int, np.integer)) and not isinstance(rs, bool)]
    h.check(len(draws) == 1 or len(ints) <= 1, "blocks-do-not-restart-the-same-integer-seed",
            f"{len(draws)} base draws, {len(ints)} of them started from the integer seed {ints[:1]}: repeated realisations")


def obligations(tier):
    for n_ in (3, 2_500_000):
        yield ("big_draw", h_big_draw, {"n": n_, "seed": 42}, {})
    for pair in PAIRS:
        for direction in ("inverse(transform(x))", "transform(inverse(y))"):
            yield ("round_trip", h_round_trip, {"pair": pair, "direction": direction}, {"timeout_ms": 15000})
    if tier == "thorough":
        for pair in PAIRS:
            yield ("round_trip", h_round_trip, {"pair": pair, "direction": "inverse(transform(x))", "vector": True},
                   {"timeout_ms": 30000})
    for g in ("get_Windmeier_EW_Hs_S", "get_Nonzero_EW_Hs_S"):
        yield ("jacobian", h_jacobian, {"getter": g}, {"timeout_ms": 15000})
        yield ("push_forward", h_push_forward, {"getter": g}, {})
    for g in ("get_Windmeier_EW_Hs_S", "get_Nonzero_EW_Hs_S"):
        yield ("transformed_cdf", h_transformed_cdf, {"getter": g}, {"max_paths": 2000})
    for pf in (1.0, 0.1):
        yield ("conditional_quantiles", h_conditional_quantiles, {"pf": pf}, {"max_paths": 5000})
    for dim in range(3):
        yield ("conditional_sample", h_conditional_sample, {"dim": dim}, {"max_paths": 2000})
    for seed in ("symbolic", 0, 1, 42):
        yield ("iform_branch", h_iform_branch, {"seed": seed}, {})
    yield ("marginal_seeded", h_marginal_seeded, {}, {})
