"""C13 - exponentiated-Weibull least squares = weighted quantile regression, for any weights."""

from __future__ import annotations

import numpy as np
import z3

from .. import sym, shim, stubs, npx
from .families import FAMILIES

PROPERTY = "C13"
FUNCTIONS = [
    "distributions.ExponentiatedWeibullDistribution._fit_lsq",
    "distributions.ExponentiatedWeibullDistribution._estimate_alpha_beta",
    "distributions.ExponentiatedWeibullDistribution._wlsq_error",
]
BOUNDS = {
    "quick": "closed-form estimator: 3 regression points (4 observations when one is exactly 0) with arbitrary positive "
             "weights directly; 4 points by lemma split (weights summing to one + independence of the weight scale); "
             "observations, weights and delta symbolic, log10/log/pow purified to fresh reals (the regression "
             "identity does not depend on what they compute): both normal equations decided by nonlinear arithmetic; "
             "wiring of fit(): all 6 weight specifications x fixed/free delta x both method names on 3 symbolic "
             "observations in arbitrary order (all 6 orderings forked)",
    "thorough": "n = 5 for the lemma-split normal equations; 4 observations for the wiring (24 orderings)",
}
OUTSIDE = [
    "that Nelder-Mead (scipy.optimize.fmin) returns a local minimiser of the x-space error for a free delta: decided "
    "are the objective handed to it, its start value and the use of its result",
    "samples of 30..5000 points: the estimator is a closed form over sums, nothing beyond n <= 5 is claimed",
]
ASSUMPTIONS = [
    "log10/log/pow are functions of their arguments (purification); scipy.optimize.fmin(func, x0, args, disp) "
    "contract stub returning an arbitrary vector",
]

EW = "ExponentiatedWeibullDistribution"


def _cls():
    return getattr(shim.mod("distributions"), EW)


def _pow_arg(h, v):
    """the exponent y of a purified 10**y (to read log10(alpha_hat) back without a logarithm)"""
    if h.sym:
        t = sym.lift(v).t
        name, args, var = h.E.purified_by_var[t.get_id()]
        if name != "pow":
            raise sym.HarnessError("alpha_hat is not a power")
        base = z3.simplify(args[0])
        if not (z3.is_rational_value(base) and base.numerator_as_long() == 10 and base.denominator_as_long() == 1):
            raise sym.HarnessError("alpha_hat is not a power of ten")
        return sym.SR(args[1])
    return float(np.log10(v))


def h_normal_equations(h):
    """(log10 alpha_hat, 1/beta_hat) solve both weighted normal equations of X_i = a + b P_i, for ANY positive weights"""
    n = h.cfg["n"]
    if h.sym:
        h.E.purify = True
        h.E.flatten_div = True
    xs = [h.real(f"x{i}", 0.2, 9.0) for i in range(n)]
    if h.cfg["zero"]:
        xs[0] = 0.0
    ws = [h.real(f"w{i}", 0.05, 5.0) for i in range(n)]
    if h.cfg.get("normalised"):
        # lemma split for larger n: weights that already sum to one (the general case follows with scale_invariance)
        if h.sym:
            tot = ws[0]
            for w_ in ws[1:]:
                tot = tot + w_
            h.assume(tot == 1)
        else:
            tot = sum(ws)
            ws = [w_ / tot for w_ in ws]
    delta = h.real("delta", 0.5, 5.0)
    p = (np.arange(1, n + 1) - 0.5) / n
    if not h.sym:
        order = np.argsort(xs)
        xs = [xs[k] for k in order]
    x, w = h.arr(xs), h.arr(ws)
    if h.sym and h.cfg["zero"]:
        x = np.array(xs, dtype=object).view(sym.SymArray)
    a_hat_alpha, beta_hat = _cls()._estimate_alpha_beta(delta, x, h.arr(list(p)), w)
    h.reach()
    a = _pow_arg(h, a_hat_alpha)
    b = 1 / beta_hat
    # the same linearisation written independently: X_i = log10 x_i, P_i = log10(-ln(1 - p_i^(1/delta)))
    keep = [i for i in range(n) if not (h.cfg["zero"] and i == 0)]
    X = [np.log10(xs[i]) for i in keep]
    P = [np.log10(-np.log(1 - p[i] ** (1 / delta))) for i in keep]
    W = [ws[i] for i in keep]
    r = [X[k] - a - b * P[k] for k in range(len(keep))]
    e1 = sum(W[k] * r[k] for k in range(len(keep)))
    e2 = sum(W[k] * P[k] * r[k] for k in range(len(keep)))
    scale = sum(W)
    h.close(e1 / scale, 0.0, "normal-equation-intercept", rtol=1e-9, atol=1e-9)
    h.close(e2 / scale, 0.0, "normal-equation-slope", rtol=1e-9, atol=1e-9)


def h_scale_invariance(h):
    """the estimate does not depend on how the weights are normalised: est(c*w) == est(w) for every c > 0"""
    n = h.cfg["n"]
    if h.sym:
        h.E.purify = True
        h.E.flatten_div = True
    xs = [h.real(f"x{i}", 0.2, 9.0) for i in range(n)]
    if not h.sym:
        xs = sorted(xs)
    ws = [h.real(f"w{i}", 0.05, 5.0) for i in range(n)]
    c = h.real("c", 0.1, 20.0)
    delta = h.real("delta", 0.5, 5.0)
    p = h.arr([(i + 0.5) / n for i in range(n)])
    a1, b1 = _cls()._estimate_alpha_beta(delta, h.arr(xs), p, h.arr(ws))
    a2, b2 = _cls()._estimate_alpha_beta(delta, h.arr(xs), p, h.arr([c * w for w in ws]))
    h.reach()
    if h.sym:
        # lemma first: the normalised weights w_i / sum(w) are the same in both runs; once proved it is available as a
        # fact, and the equality of the estimates follows by congruence (both runs execute the same code)
        def quot_of(num):
            for (a, b, q) in h.E._divs.values():
                if a.eq(num):
                    return q
            raise sym.HarnessError("normalised weight not found (estimator no longer divides the weights by their sum?)")
        for i in range(n):
            q1, q2 = quot_of(sym.lift(ws[i]).t), quot_of(sym.lift(c * ws[i]).t)
            h.close(sym.SR(q2), sym.SR(q1), "normalised-weights-independent-of-scale")
            if h.results[-1][1] == "proved":
                h.E.axiom(q2 == q1)
    h.close(_pow_arg(h, a2), _pow_arg(h, a1), "alpha-independent-of-weight-scale", rtol=1e-9)
    h.close(b2, b1, "beta-independent-of-weight-scale", rtol=1e-9)


SPECS = ["none", "linear", "quadratic", "cubic", "array", "array_scaled"]


def h_fit_wiring(h):
    """fit(data, 'lsq'|'wlsq', weights): what reaches the closed-form estimator and what is done with its result"""
    C = _cls()
    n = h.cfg["n"]
    spec = h.cfg["spec"]
    fixed_delta = h.cfg["fixed_delta"]
    data = [h.real(f"d{i}", 0.2, 9.0) for i in range(n)]
    if h.cfg.get("ties"):
        # tied observations (rounded data): the first two observations are the same value; ties still get the
        # consecutive plotting positions of their ranks
        h.distinct(data[1:], 0.05)
        data[0] = data[1] if h.cfg["ties"] == "first" else data[n - 1]
    else:
        h.distinct(data, 0.05)
    omega = [h.real(f"w{i}", 0.1, 4.0) for i in range(n)] if spec.startswith("array") else None
    c = h.real("c", 0.2, 7.0) if spec == "array_scaled" else 1.0
    weights = {"none": None, "linear": "linear", "quadratic": "Quadratic", "cubic": "cubic"}.get(spec)
    if omega is not None:
        weights = h.arr([c * o for o in omega]) if h.cfg["as_array"] else [c * o for o in omega]
    d0 = h.real("delta0", 0.6, 4.0)
    dist = C(f_delta=d0) if fixed_delta else C(delta=d0)
    rec = []
    fa, fb = h.real("est_alpha", 0.3, 5.0), h.real("est_beta", 0.3, 5.0)

    def est(delta, x, p, w, falpha=None, fbeta=None):
        rec.append({"delta": delta, "x": x, "p": p, "w": w})
        return fa, fb

    fmin_calls = []
    dnew = h.real("delta_opt", 0.6, 4.0)

    def fmin(func, x0, args=(), disp=True, **kw):
        fmin_calls.append({"func": func, "x0": x0, "args": args})
        return np.array([dnew], dtype=object if h.sym else float)

    D = shim.mod("distributions")
    with stubs.patch_attr(C, "_estimate_alpha_beta", staticmethod(est)), stubs.patch_attr(D, "fmin", fmin):
        dist.fit(h.arr(data) if h.cfg["as_array"] else list(data), h.cfg["method"], weights)
    h.reach()
    h.check(len(rec) == 1, "closed-form-estimator-called-once-for-the-final-parameters")
    r = rec[-1]
    # order statistics and plotting positions
    if h.sym:
        order = npx._argsort_stable(data)
    else:
        order = list(np.argsort(data))
    xs = [data[k] for k in order]
    h.close(r["x"], xs, "observations-sorted-ascending")
    h.close(r["p"], [(i + 0.5) / n for i in range(n)], "plotting-positions-(i-0.5)/n", rtol=1e-12)
    # effective weights, up to a common positive factor
    if spec == "none":
        eff = [1.0] * n
    elif spec in ("linear", "quadratic", "cubic"):
        k = {"linear": 1, "quadratic": 2, "cubic": 3}[spec]
        eff = [x ** k for x in xs]
    else:
        eff = [omega[k] for k in order]     # the weight of an observation travels with the observation
    w = [r["w"][i] for i in range(n)]
    for i in range(1, n):
        h.close(w[i] * eff[0], w[0] * eff[i], "weights-proportional-to-the-specification", rtol=1e-9)
    h.check(w[0] > 0, "weights-positive")
    # use of the result
    h.close(dist.alpha, fa, "alpha-is-the-estimate")
    h.close(dist.beta, fb, "beta-is-the-estimate")
    if fixed_delta:
        h.check(len(fmin_calls) == 0, "fixed-delta-not-optimised")
        h.close(dist.delta, d0, "delta-stays-fixed")
        h.close(r["delta"], d0, "estimator-uses-the-delta-in-force")
    else:
        h.check(len(fmin_calls) == 1, "free-delta-optimised-once")
        f = fmin_calls[0]
        h.check(getattr(f["func"], "__name__", "") == "_wlsq_error", "objective-is-the-x-space-weighted-error")
        h.close(f["x0"], d0, "optimiser-starts-at-current-delta")
        h.check(len(f["args"]) == 3, "objective-arguments")
        h.close(f["args"][0], xs, "objective-on-sorted-observations")
        h.close(f["args"][1], [(i + 0.5) / n for i in range(n)], "objective-plotting-positions", rtol=1e-12)
        for i in range(1, n):
            h.close(f["args"][2][i] * eff[0], f["args"][2][0] * eff[i], "objective-weights-proportional", rtol=1e-9)
        h.close(dist.delta, dnew, "delta-is-the-optimisers-result")
        h.close(r["delta"], dnew, "estimator-uses-the-delta-in-force")


def h_wlsq_error(h):
    """objective for delta: sum w_i (x_i - alpha_hat(delta) (-ln(1 - p_i^(1/delta)))^(1/beta_hat(delta)))^2"""
    C = _cls()
    n = h.cfg["n"]
    if h.sym:
        h.E.purify = True
    xs = [h.real(f"x{i}", 0.2, 9.0) for i in range(n)]
    if not h.sym:
        xs = sorted(xs)
    ws = [h.real(f"w{i}", 0.05, 5.0) for i in range(n)]
    delta = h.real("delta", 0.5, 5.0)
    p = [(i + 0.5) / n for i in range(n)]
    fa, fb = h.real("est_alpha", 0.3, 5.0), h.real("est_beta", 0.3, 5.0)
    rec = []

    def est(d, x, pp, w, falpha=None, fbeta=None):
        rec.append((d, x, pp, w))
        return fa, fb

    with stubs.patch_attr(C, "_estimate_alpha_beta", staticmethod(est)):
        got = C._wlsq_error(delta, h.arr(xs), h.arr(p), h.arr(ws))
    h.reach()
    h.check(len(rec) == 1, "uses-the-closed-form-estimate-for-this-delta")
    h.close(rec[0][0], delta, "estimate-for-the-same-delta")
    ref = 0
    for i in range(n):
        xhat = fa * (-np.log(1 - p[i] ** (1 / delta))) ** (1 / fb)
        ref = ref + ws[i] * (xs[i] - xhat) ** 2
    h.close(got, ref, "weighted-squared-quantile-error-in-x-space", rtol=1e-9)


def obligations(tier):
    # arbitrary positive weights: up to 3 regression points (4 observations when one is exactly zero)
    for n, zero in ((3, False), (3, True), (4, True)):
        yield ("normal_equations", h_normal_equations, {"n": n, "zero": zero}, {"timeout_ms": 8000})
    # larger n by lemma split: weights summing to one + independence of the weight scale
    for n in ((4,) if tier == "quick" else (4, 5)):
        yield ("normal_equations", h_normal_equations, {"n": n, "zero": False, "normalised": True}, {"timeout_ms": 8000})
        yield ("scale_invariance", h_scale_invariance, {"n": n}, {"timeout_ms": 8000})
    nw = 3 if tier == "quick" else 4
    for spec in SPECS:
        for fixed in (True, False):
            for method in (("wlsq",) if tier == "quick" and spec not in ("none", "array") else ("lsq", "wlsq")):
                for as_array in ((True,) if spec != "array" else (True, False)):
                    yield ("fit_wiring", h_fit_wiring,
                           {"n": nw, "spec": spec, "fixed_delta": fixed, "method": method, "as_array": as_array},
                           {"max_paths": 5000})
    # ties (weights that are functions of the value, so that equal observations are interchangeable)
    for spec in ("none", "linear", "cubic"):
        for fixed in (True, False):
            for ties in ("first", "last"):
                yield ("fit_wiring", h_fit_wiring,
                       {"n": 4, "spec": spec, "fixed_delta": fixed, "method": "wlsq", "as_array": True, "ties": ties},
                       {"max_paths": 5000})
    yield ("wlsq_error", h_wlsq_error, {"n": 3}, {})
