"""C17 - design conditions lie on the contour at the requested abscissa, top ordinate; curve intersections."""

from __future__ import annotations

import numpy as np

from .. import sym, shim, npx

PROPERTY = "C17"
FUNCTIONS = [
    "_intersection.intersection", "_intersection._rectangle_intersection_", "_intersection._rect_inter_inner",
    "utils.calculate_design_conditions",
]
BOUNDS = {
    "quick": "intersection: 6 pairs of polyline shapes (1-2 segments each, incl. vertical/horizontal) at EVERY relative "
             "position (symbolic translations) and scales 1e-6..1e3 (enumerated decades), general position with 2% "
             "margins at segment ends; design conditions: pentagon of fixed abscissa pattern, symbolic position and "
             "symbolic ordinate of every vertex (+-0.05), scales 1 and 1e-4, steps as explicit list (inside and "
             "outside the range), int and None, both swap_axis values; the same for a flat-topped quadrilateral and a "
             "non-convex notched hexagon that probe lines cross four times, and for a pentagon with a short closing "
             "edge on top lying up to 3e5 contour sizes from the origin in any quadrant. All terms are linear: every query is decided.",
    "thorough": "10 shape pairs with up to 3 segments, 9 scale decades, second polygon",
}
OUTSIDE = [
    "degenerate configurations (probe line through a vertex, parallel or touching segments)",
    "polygons with more than four crossings per abscissa (a notched hexagon with four crossings is in the bound)",
    "floating-point cancellation in the 4x4 solve (Real mode)",
    "polylines/polygons whose segment DIRECTIONS are symbolic: a fully symbolic formulation leads to nonlinear "
    "queries that neither z3 4.8/5.1 nor cvc5 decided within minutes (probed); directions are enumerated instead",
]
ASSUMPTIONS = ["np.linalg.solve(A, b) returns the unique x with A x = b when det A != 0 and raises LinAlgError otherwise"]


def _cross(ax, ay, bx, by):
    return ax * by - ay * bx


def _segments(xs, ys):
    return [((xs[i], ys[i]), (xs[i + 1], ys[i + 1])) for i in range(len(xs) - 1)]


def _crossing(h, P, Q, margin, scale2=1.0):
    """closed form for segments P=(p0,p1), Q=(q0,q1): returns (cond, X, Y) and adds the general-position assumptions"""
    (p0x, p0y), (p1x, p1y) = P
    (q0x, q0y), (q1x, q1y) = Q
    dpx, dpy, dqx, dqy = p1x - p0x, p1y - p0y, q1x - q0x, q1y - q0y
    D = _cross(dpx, dpy, dqx, dqy)
    wx, wy = q0x - p0x, q0y - p0y
    tn = _cross(wx, wy, dqx, dqy)      # t = tn / D
    un = _cross(wx, wy, dpx, dpy)      # u = un / D
    if h.sym:
        h.assume(sym.Or(D >= margin * scale2, D <= -margin * scale2))
    else:
        h.assume(abs(D) >= margin * scale2)
    t, u = tn / D, un / D
    for v in (t, u):   # not within 0.02 of the segment ends (endpoint touching is outside general position)
        if h.sym:
            h.assume(sym.And(sym.Or(v >= 0.02, v <= -0.02), sym.Or(v >= 1.02, v <= 0.98)))
        else:
            h.assume((v >= 0.02 or v <= -0.02) and (v >= 1.02 or v <= 0.98))
    cond = sym.And(t >= 0, t <= 1, u >= 0, u <= 1) if h.sym else (0 <= t <= 1 and 0 <= u <= 1)
    return cond, p0x + t * dpx, p0y + t * dpy


SHAPES = {
    # polyline shapes as vertex lists (unit scale); directions are concrete, positions symbolic
    "seg_diag": [[0.0, 0.0], [2.0, 1.5]],
    "seg_anti": [[0.0, 2.0], [2.5, 0.0]],
    "seg_vert": [[0.0, -1.0], [0.0, 3.0]],
    "seg_horz": [[-1.0, 0.0], [3.0, 0.0]],
    "vee": [[0.0, 0.0], [2.0, 2.5], [4.0, 0.5]],
    "zig": [[0.0, 0.0], [1.5, 2.0], [2.0, -1.0], [3.5, 1.0]],
    "hook": [[0.5, 2.0], [3.5, 0.2], [3.8, 3.0]],
}


def h_intersection(h):
    """two polylines of fixed shape (concrete directions, enumerated) at every relative position (symbolic
    translations) and scale (enumerated decade): all terms are linear, every query is decided exactly"""
    I = shim.mod("_intersection")
    sc = h.cfg["scale"]
    A, B = np.array(SHAPES[h.cfg["a"]]) * sc, np.array(SHAPES[h.cfg["b"]]) * sc
    ox, oy = h.real("ox", -2.0 * sc, 2.0 * sc), h.real("oy", -2.0 * sc, 2.0 * sc)
    tx, ty = h.real("tx", -3.0 * sc, 3.0 * sc), h.real("ty", -3.0 * sc, 3.0 * sc)
    x1 = [ox + float(v[0]) for v in A]
    y1 = [oy + float(v[1]) for v in A]
    x2 = [ox + tx + float(v[0]) for v in B]
    y2 = [oy + ty + float(v[1]) for v in B]
    refs = []
    for ia in range(len(A) - 1):
        for ib in range(len(B) - 1):
            dpx, dpy = float(A[ia + 1][0] - A[ia][0]), float(A[ia + 1][1] - A[ia][1])
            dqx, dqy = float(B[ib + 1][0] - B[ib][0]), float(B[ib + 1][1] - B[ib][1])
            D = dpx * dqy - dpy * dqx
            if abs(D) < 1e-9 * sc * sc:
                raise sym.HarnessError("parallel pair in a shape combination (outside general position)")
            wx, wy = x2[ib] - x1[ia], y2[ib] - y1[ia]
            t = (wx * dqy - wy * dqx) * (1.0 / D)
            u = (wx * dpy - wy * dpx) * (1.0 / D)
            for v in (t, u):   # general position: no crossing within 2% of a segment end
                if h.sym:   # (3% for the solver so that a boundary model still satisfies the 2% of the concrete replay)
                    h.assume(sym.And(sym.Or(v >= 0.03, v <= -0.03), sym.Or(v >= 1.03, v <= 0.97)))
                else:
                    h.assume((v >= 0.02 or v <= -0.02) and (v >= 1.02 or v <= 0.98))
            cond = sym.And(t >= 0, t <= 1, u >= 0, u <= 1) if h.sym else (0 <= t <= 1 and 0 <= u <= 1)
            refs.append((cond, x1[ia] + t * dpx, y1[ia] + t * dpy))
    as_list = h.cfg.get("lists", False)
    X, Y = I.intersection(x1 if as_list else h.arr(x1), y1 if as_list else h.arr(y1),
                          x2 if as_list else h.arr(x2), y2 if as_list else h.arr(y2))
    h.reach()
    m = len(X)
    h.check(len(Y) == m, "x-y-same-length")

    def same(ax, ay, bx, by):
        if h.sym:   # the reference uses the double 1/D: equal up to a relative 1e-16, compare with 1e-9 * scale
            tol = 1e-9 * sc
            dx, dy = sym.lift(ax) - bx, sym.lift(ay) - by
            return sym.And(dx <= tol, dx >= -tol, dy <= tol, dy >= -tol)
        return abs(ax - bx) <= 1e-7 * sc and abs(ay - by) <= 1e-7 * sc

    for (cond, cx, cy) in refs:
        if h.sym:
            hit = sym.Or(*[same(X[k], Y[k], cx, cy) for k in range(m)]) if m else False
            h.check(sym.Or(sym.Not(cond), hit), "every-crossing-is-returned")
        elif cond:
            h.check(any(same(X[k], Y[k], cx, cy) for k in range(m)), "every-crossing-is-returned")
    for k in range(m):
        if h.sym:
            h.check(sym.Or(*[sym.And(cond, same(X[k], Y[k], cx, cy)) for (cond, cx, cy) in refs]),
                    "returned-point-is-a-crossing-on-both-curves")
        else:
            h.check(any(cond and same(X[k], Y[k], cx, cy) for (cond, cx, cy) in refs),
                    "returned-point-is-a-crossing-on-both-curves")
    if h.sym:
        ncross = 0
        for (c, _, _) in refs:
            ncross = ncross + sym.lift(sym.If(c, 1, 0))
        h.check(sym.lift(ncross) == m, "no-duplicates-no-omissions")
    else:
        h.check(sum(1 for (c, _, _) in refs if c) == m, "no-duplicates-no-omissions")


POLYGONS = {
    "pentagon": [[2.0, 1.0], [4.0, 1.5], [4.5, 4.0], [3.0, 5.0], [1.5, 3.0]],
    "quad": [[1.0, 2.0], [3.0, 0.5], [5.0, 2.5], [2.5, 4.5]],
    # the closing edge (last vertex -> first vertex) is the TOP of the polygon and (before the symbolic perturbation)
    # horizontal: first and last vertex may share a coordinate exactly, as on rectangles and clipped contours
    "flat_top": [[1.0, 4.0], [1.5, 1.0], [4.0, 0.5], [4.5, 4.0]],
    # non-convex (star-shaped about (2.5, 2.5)): a probe line in the notch crosses the polygon FOUR times, as on
    # banana-shaped Hs-Tz contours and on unions of density regions; notch_y is the same shape for swap_axis=True
    "notch_x": [[1.0, 2.5], [2.0, 0.5], [5.0, 1.5], [3.0, 2.5], [5.0, 3.5], [2.0, 4.5]],
    "notch_y": [[2.5, 1.0], [0.5, 2.0], [1.5, 5.0], [2.5, 3.0], [3.5, 5.0], [4.5, 2.0]],
    # the closing edge (last vertex -> first vertex) is the top edge and SHORT: on a contour far from the origin
    # (pressure in Pa, temperature in K) its two ends are "close" relative to the size of the coordinates although
    # they are a whole edge apart relative to the contour; short_top_y is the same shape for swap_axis=True
    "short_top_x": [[2.0, 4.0], [1.0, 2.5], [2.8, 0.5], [4.0, 2.5], [3.0, 4.0]],
    "short_top_y": [[4.0, 2.0], [2.5, 1.0], [0.5, 2.8], [2.5, 4.0], [4.0, 3.0]],
}


class _Contour:
    def __init__(self, coords):
        self.coordinates = coords


def _poly(h, name):
    """polygon of fixed shape and enumerated scale; symbolic: its position and an independent perturbation of every
    ordinate (the abscissae of vertices and probes keep their relative position, so every term stays linear)"""
    s = float(h.cfg.get("scale", 1.0))
    base = np.array(POLYGONS[name])
    yi = 0 if h.cfg["swap"] else 1
    # position of the polygon: anywhere, including entirely at negative abscissae and / or negative ordinates
    # (temperatures, a normal variable with negative mean)
    lo_off = -12.0 if h.cfg.get("anywhere") else -1.0
    hi_off = 1.0
    if h.cfg.get("far"):
        # anywhere up to 3e5 contour sizes away from the origin, in every quadrant
        lo_off, hi_off = -3e5, 3e5
    off = [h.real("off0", lo_off, hi_off), h.real("off1", lo_off, hi_off)]
    rows = []
    for k in range(len(base)):
        r = [s * (float(base[k, 0]) + off[0]), s * (float(base[k, 1]) + off[1])]
        r[yi] = r[yi] + s * h.real(f"v{k}", -0.05, 0.05)
        rows.append(r)
    return rows, base, (s, off)


def _ref_design(h, rows, base, s, probes, xi, yi):
    """reference: for each probe abscissa (given relative to the unscaled base polygon) the largest crossing ordinate;
    which edges are crossed is decided on the base polygon (perturbations are smaller than the margins used)"""
    n = len(rows)
    s, off = s
    out = []
    for x2b in probes:
        ys = []
        for k in range(n):
            a, b = k, (k + 1) % n
            xa, xb = base[a][xi], base[b][xi]
            lo, hi = min(xa, xb), max(xa, xb)
            if lo + 0.1 < x2b < hi - 0.1:
                t = (x2b - xa) / (xb - xa)          # concrete: abscissae keep their relative position
                ys.append(rows[a][yi] + t * (rows[b][yi] - rows[a][yi]))
            elif lo - 0.1 <= x2b <= hi + 0.1:
                raise sym.HarnessError("probe abscissa too close to a vertex of the base polygon")
        if ys:
            top = ys[0]
            for y in ys[1:]:
                top = sym.If(y > top, y, top) if h.sym else max(y, top)
            out.append((s * (x2b + off[xi]), top))
    return out


def h_design_list(h):
    U = shim.mod("utils")
    swap = h.cfg["swap"]
    xi, yi = (1, 0) if swap else (0, 1)
    rows, base, s = _poly(h, h.cfg["polygon"])
    probes = h.cfg["probes"]
    steps = [s[0] * (p + s[1][xi]) for p in probes]
    dc = U.calculate_design_conditions(_Contour(h.arr(rows)), steps=steps, swap_axis=swap)
    h.reach()
    ref = _ref_design(h, rows, base, s, probes, xi, yi)
    h.check(np.shape(dc) == (len(ref), 2), "one-row-per-crossing-abscissa", f"{np.shape(dc)} vs {len(ref)}")
    for k, (x2, top) in enumerate(ref):
        h.close(dc[k, 0], x2, "abscissa-as-requested")
        h.close(dc[k, 1], top, "largest-ordinate-on-the-polygon-at-that-abscissa", rtol=1e-7)
    # swap_axis is the same as exchanging the coordinates
    rows_sw = [[r[1], r[0]] for r in rows]
    dc2 = U.calculate_design_conditions(_Contour(h.arr(rows_sw)), steps=steps, swap_axis=not swap)
    h.close(dc2, dc, "swap_axis-equals-exchanging-coordinates")


def h_design_any_abscissa(h):
    """one requested abscissa ANYWHERE (symbolic, in general position w.r.t. the vertices): a design condition is
    returned iff the abscissa lies strictly inside the contour's extent, with the largest crossing ordinate"""
    U = shim.mod("utils")
    swap = h.cfg["swap"]
    xi, yi = (1, 0) if swap else (0, 1)
    rows, base, (s, off) = _poly(h, h.cfg["polygon"])
    bx = [float(b[xi]) for b in base]
    lo, hi = min(bx), max(bx)
    p = h.real("probe", lo - 0.5, hi + 0.5)
    for v in sorted(set(bx)):        # general position: not through a vertex (1e-6 of the extent away)
        h.assume(sym.Or(p >= v + 3e-6, p <= v - 3e-6) if h.sym else abs(p - v) >= 2e-6)
    x2 = s * (p + off[xi])
    dc = U.calculate_design_conditions(_Contour(h.arr(rows)), steps=[x2], swap_axis=swap)
    h.reach()
    n = len(rows)
    inside = sym.And(p > lo, p < hi) if h.sym else (lo < p < hi)
    got = np.shape(dc)[0]
    h.check(got in (0, 1), "at-most-one-row-per-abscissa")
    if h.sym:
        h.check(sym.Or(sym.And(inside, got == 1), sym.And(sym.Not(inside), got == 0)),
                "design-condition-iff-abscissa-inside-the-contours-extent", f"{got} rows")
    else:
        h.check(bool(inside) == (got == 1), "design-condition-iff-abscissa-inside-the-contours-extent", f"{got} rows")
    if got == 1:
        top = None
        for k in range(n):
            a, b = k, (k + 1) % n
            xa, xb = bx[a], bx[b]
            if xa == xb:
                continue
            t = (p - xa) * (1.0 / (xb - xa))
            y = rows[a][yi] + t * (rows[b][yi] - rows[a][yi])
            crosses = sym.And(p > min(xa, xb), p < max(xa, xb)) if h.sym else (min(xa, xb) < p < max(xa, xb))
            if h.sym:
                cand = sym.If(crosses, y, -1e9)
                top = cand if top is None else sym.If(cand > top, cand, top)
            elif crosses:
                top = y if top is None else max(top, y)
        h.close(dc[0, 0], x2, "abscissa-as-requested")
        d = dc[0, 1] - top
        tol = 1e-7 * s * 10
        h.check(sym.And(d <= tol, d >= -tol) if h.sym else abs(d) <= tol, "largest-ordinate-on-the-polygon-at-that-abscissa")


def h_design_default(h):
    """steps=None / int: abscissae span the contour's extent (min + eps .. max - eps, eps = 1e-4 extent)"""
    U = shim.mod("utils")
    swap = h.cfg["swap"]
    xi, yi = (1, 0) if swap else (0, 1)
    rows, base, s = _poly(h, h.cfg["polygon"])
    n_steps = h.cfg["steps"]
    dc = U.calculate_design_conditions(_Contour(h.arr(rows)), steps=n_steps, swap_axis=swap)
    h.reach()
    n = 10 if n_steps is None else n_steps
    xs = [r[xi] for r in rows]
    if h.sym:
        lo, hi = npx.amin(h.arr(xs)), npx.amax(h.arr(xs))
    else:
        lo, hi = min(xs), max(xs)
    eps = 0.0001 * (hi - lo)
    h.check(np.shape(dc)[0] == n, "default-abscissae-all-cross-the-contour", f"{np.shape(dc)} rows for {n} steps")
    for k in range(np.shape(dc)[0]):
        want = (lo + eps) + (k / (n - 1)) * ((hi - eps) - (lo + eps)) if n > 1 else lo + eps
        h.close(dc[k, 0], want, "default-abscissae-span-the-extent", rtol=1e-9, approx=True)


def obligations(tier):
    pairs = [("seg_diag", "seg_anti"), ("seg_diag", "seg_vert"), ("seg_horz", "seg_vert"), ("vee", "seg_anti"),
             ("vee", "seg_vert"), ("vee", "hook")]
    if tier == "thorough":
        pairs += [("zig", "seg_vert"), ("zig", "hook"), ("hook", "vee"), ("zig", "vee")]
    scales = (1.0, 1e-2, 1e-4, 1e-6, 1e3) if tier == "quick" else (1.0, 1e-1, 1e-2, 1e-3, 1e-4, 1e-5, 1e-6, 1e2, 1e3)
    for a, b in pairs:
        for sc in scales:
            if tier == "quick" and sc != 1.0 and (a, b) not in (("seg_diag", "seg_anti"), ("vee", "seg_vert")):
                continue
            yield ("intersection", h_intersection, {"a": a, "b": b, "scale": sc}, {"max_paths": 20000})
    yield ("intersection", h_intersection, {"a": "vee", "b": "seg_anti", "scale": 1.0, "lists": True}, {})
    for swap in (False, True):
        poly = "short_top_y" if swap else "short_top_x"
        yield ("design_list", h_design_list, {"polygon": poly, "swap": swap, "probes": [2.5, 1.5, 3.5, 6.0], "scale": 1.0,
                                              "far": True}, {"max_paths": 20000})
        yield ("design_any_abscissa", h_design_any_abscissa, {"polygon": poly, "swap": swap, "scale": 1.0, "far": True},
               {"max_paths": 20000})
    for poly0 in (("pentagon", "flat_top", "notch") if tier == "quick" else ("pentagon", "quad", "flat_top", "notch")):
        for swap in (False, True):
            poly = poly0 if poly0 != "notch" else ("notch_y" if swap else "notch_x")
            pr = {"notch_x": {False: [4.0, 1.5, 6.0, 2.5]}, "notch_y": {True: [4.0, 1.5, 6.0, 2.5]},
                  "pentagon": {False: [2.6, 3.5, 0.5, 4.25], True: [2.0, 3.5, 6.0]},
                  "quad": {False: [2.0, 4.0, 6.0], True: [1.2, 3.2]},
                  "flat_top": {False: [2.5, 3.0, 0.5, 4.25], True: [2.0, 3.0, 6.0]}}[poly][swap]
            for sc in (((1.0, 1e-4) if poly == "pentagon" else (1.0,)) if tier == "quick" else scales):
                yield ("design_list", h_design_list, {"polygon": poly, "swap": swap, "probes": pr, "scale": sc},
                       {"max_paths": 20000})
                if sc == 1.0:
                    yield ("design_list", h_design_list,
                           {"polygon": poly, "swap": swap, "probes": pr, "scale": sc, "anywhere": True}, {"max_paths": 20000})
                yield ("design_any_abscissa", h_design_any_abscissa, {"polygon": poly, "swap": swap, "scale": sc},
                       {"max_paths": 20000})
                for steps in (None, 4):
                    if tier == "quick" and (steps is None) == swap:
                        continue
                    yield ("design_default", h_design_default, {"polygon": poly, "swap": swap, "steps": steps, "scale": sc},
                           {"max_paths": 20000})
