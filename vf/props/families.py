"""Reference table of the shipped distribution families, written from the two documentations
(virocon class docstrings <-> scipy.stats docstrings).  This table IS the specification used by
C05/C08/C11/C12; it deliberately does not import anything from virocon's implementation of the mapping.

 virocon                          scipy.stats      (shape(s)..., loc, scale)
 Weibull(alpha, beta, gamma)      weibull_min      (c=beta, loc=gamma, scale=alpha)
 LogNormal(mu, sigma)             lognorm          (s=sigma, loc=0, scale=exp(mu))
 Normal(mu, sigma)                norm             (loc=mu, scale=sigma)
 ExpWeibull(alpha, beta, delta)   exponweib        (a=delta, c=beta, loc=0, scale=alpha)
 GenGamma(m, c, lambda_)          gengamma         (a=m, c=c, loc=0, scale=1/lambda_)
 VonMises(kappa, mu)              vonmises         (kappa, loc=mu, scale=1)
 LogNormalNormFit(mu_norm, sigma_norm)  lognorm    (s=sqrt(ln(1+sn^2/mn^2)), 0, mn/sqrt(1+sn^2/mn^2))
"""

from __future__ import annotations

import itertools

import numpy as np

from .. import shim


class Fam:
    def __init__(self, cls, scipy, params, ranges, ref, fit_slots=None, subclass=None):
        self.cls = cls              # virocon class name
        self.scipy = scipy          # scipy.stats family name
        self.params = params        # virocon parameter names in virocon's order
        self.ranges = ranges        # admissible (lo, hi) used for symbolic inputs and replays
        self.ref = ref              # dict(params) -> tuple of scipy args (full signature)
        self.fit_slots = fit_slots  # virocon param -> scipy fit keyword that fixes it
        self.subclass = subclass

    def make(self, **kw):
        vc = shim.virocon()
        if self.subclass:
            base = vc.ScipyDistribution
            C = type(self.cls, (base,), {"scipy_dist_name": self.subclass})
            return C(**kw)
        return getattr(shim.mod("distributions"), self.cls)(**kw)


def _normfit(p):
    r = p["sigma_norm"] ** 2 / p["mu_norm"] ** 2
    s = np.sqrt(np.log(1 + r))
    mu = np.log(p["mu_norm"] / np.sqrt(1 + r))   # documented: mu of the underlying normal
    return (s, 0, np.exp(mu))                   # scipy's lognorm: scale = exp(mu)


FAMILIES = {
    "Weibull": Fam("WeibullDistribution", "weibull_min", ["alpha", "beta", "gamma"],
                   {"alpha": (0.5, 5), "beta": (0.6, 4), "gamma": (0, 2)},
                   lambda p: (p["beta"], p["gamma"], p["alpha"]),
                   {"beta": "f0", "gamma": "floc", "alpha": "fscale"}),
    "LogNormal": Fam("LogNormalDistribution", "lognorm", ["mu", "sigma"],
                     {"mu": (-1, 2), "sigma": (0.2, 2)},
                     lambda p: (p["sigma"], 0, np.exp(p["mu"])),
                     {"sigma": "f0", "mu": "fscale"}),
    "Normal": Fam("NormalDistribution", "norm", ["mu", "sigma"],
                  {"mu": (-2, 3), "sigma": (0.3, 3)},
                  lambda p: (p["mu"], p["sigma"]),
                  {"mu": "floc", "sigma": "fscale"}),
    "ExpWeibull": Fam("ExponentiatedWeibullDistribution", "exponweib", ["alpha", "beta", "delta"],
                      {"alpha": (0.5, 5), "beta": (0.6, 4), "delta": (0.5, 6)},
                      lambda p: (p["delta"], p["beta"], 0, p["alpha"]),
                      {"delta": "f0", "beta": "f1", "alpha": "fscale"}),
    "GenGamma": Fam("GeneralizedGammaDistribution", "gengamma", ["m", "c", "lambda_"],
                    {"m": (0.5, 5), "c": (0.5, 4), "lambda_": (0.2, 4)},
                    lambda p: (p["m"], p["c"], 0, 1 / p["lambda_"]),
                    {"m": "f0", "c": "f1", "lambda_": "fscale"}),
    "VonMises": Fam("VonMisesDistribution", "vonmises", ["kappa", "mu"],
                    {"kappa": (0.3, 5), "mu": (-4.0, 7.0)},
                    lambda p: (p["kappa"], p["mu"], 1),
                    {"kappa": "f0", "mu": "floc"}),
    "LogNormalNormFit": Fam("LogNormalNormFitDistribution", "lognorm", ["mu_norm", "sigma_norm"],
                            {"mu_norm": (0.5, 5), "sigma_norm": (0.3, 3)}, _normfit, None),
    "ScipyWeibullMin": Fam("ScipyWeibullMin", "weibull_min", ["c", "loc", "scale"],
                           {"c": (0.6, 4), "loc": (0, 2), "scale": (0.5, 5)},
                           lambda p: (p["c"], p["loc"], p["scale"]),
                           {"c": "fc", "loc": "floc", "scale": "fscale"}, subclass="weibull_min"),
    "ScipyVonMises": Fam("ScipyVonMises", "vonmises", ["kappa", "loc", "scale"],
                         {"kappa": (0.3, 5), "loc": (-4.0, 7.0), "scale": (0.5, 2.0)},
                         lambda p: (p["kappa"], p["loc"], p["scale"]),
                         {"kappa": "fkappa", "loc": "floc", "scale": "fscale"}, subclass="vonmises"),
    "ScipyGamma": Fam("ScipyGamma", "gamma", ["a", "loc", "scale"],
                      {"a": (0.6, 5), "loc": (0, 2), "scale": (0.5, 5)},
                      lambda p: (p["a"], p["loc"], p["scale"]),
                      {"a": "fa", "loc": "floc", "scale": "fscale"}, subclass="gamma"),
}

SHIPPED = ["Weibull", "LogNormal", "Normal", "ExpWeibull", "GenGamma", "VonMises", "LogNormalNormFit"]


def subsets(names):
    for r in range(len(names) + 1):
        for c in itertools.combinations(names, r):
            yield c


def declare_params(h, fam, prefix, names=None):
    out = {}
    for p in (names if names is not None else fam.params):
        lo, hi = fam.ranges[p]
        out[p] = h.real(f"{prefix}{p}", lo, hi)
    return out
