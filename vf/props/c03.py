"""C03 - direct-sampling contour edges are (1-alpha)-quantile tangent lines of the sample."""

from __future__ import annotations

import math

import numpy as np

from .. import sym, shim, npx

PROPERTY = "C03"
FUNCTIONS = ["contours.DirectSamplingContour.__init__", "contours.DirectSamplingContour._compute"]
BOUNDS = {
    "quick": "the 15 divisors of 360 between 5 and 60 as angular step (thorough: all 19 from 1 degree); sample = 3 distinct symbolic points, each "
             "repeated 17-20 times (n = 51..60, ties allowed), alpha in {0.05, 0.1, 0.25}; order statistics by an "
             "ite sorting network (no forks), trigonometric values are numpy's doubles for the concrete direction grid",
    "thorough": "4 distinct points for steps >= 5 degrees and alpha <= 0.1, otherwise 3 (the 4-point queries with 4 equal groups "
                "around the quantile and those for 90..360 directions were not decided reliably), five alpha values, n up to 80",
}
BOUNDS["quick"] += ("; plus two CONCRETE large-sample runs (60000 points at 1 degree, 300000 points at 5 degrees: every "
                    "edge against np.quantile) - sampling at two sizes, listed separately, not part of the solver's verdict")
BOUNDS["thorough"] += "; the same two concrete large-sample runs"
OUTSIDE = [
    "rounding of the line-intersection formula (Real mode, 1e-6 relative tolerance on the tangent-line offset)",
    "samples with more than 4 distinct points (the computation is per direction and per vertex)",
    "integer-typed samples are covered by three concrete runs (80 points) only",
    "code paths that depend on the sample size (blocking, chunking): not reachable with 51-80 symbolic points; two "
    "concrete large samples are run as a guard (obligation large_sample), which is sampling and claimed as such",
]
ASSUMPTIONS = ["np.quantile 'linear' interpolation rule as implemented in vf/npx.py (validated against numpy)",
               "lemma instance per direction: the projected quantile lies in [-10 sqrt 2, 10 sqrt 2] for points of [0,10]^2"]

DIVISORS = [d for d in range(1, 61) if 360 % d == 0]


class _M:
    n_dim = 2

    def __init__(self):
        self.asked = []

    def draw_sample(self, n):
        self.asked.append(n)
        rng = np.random.default_rng(5)
        return np.c_[rng.weibull(1.5, size=min(n, 400)) * 2, rng.lognormal(1.0, 0.3, size=min(n, 400))]


def h_tangent(h):
    C = shim.mod("contours")
    deg = h.cfg["deg_step"]
    K, rep = h.cfg["distinct"], h.cfg["repeat"]
    alpha = h.cfg["alpha"]
    pts = [(h.real(f"x{i}", 0.0, 10.0), h.real(f"y{i}", 0.0, 10.0)) for i in range(K)]
    rows = []
    for r in range(rep):
        for (px, py) in pts:
            rows.append([px, py])
    sample = h.arr(rows)
    # observation stub: which direction angles does the implementation project on?  (the same doubles are then used
    # for the reference offsets, so that both sides are the same terms; the grid itself is judged below)
    used = []

    def cos_spy(a, *args, **kw):
        if np.ndim(a) == 0:
            used.append(float(a))
        return np.cos(npx._symlists(a) if h.sym else a, *args, **kw)

    from .. import stubs
    if h.sym:
        npx.MERGE_SORT[0] = True
        npx.OVERRIDES["cos"] = cos_spy
        try:
            c = C.DirectSamplingContour(_M(), alpha, sample=sample, deg_step=deg)
        finally:
            npx.MERGE_SORT[0] = False
            npx.OVERRIDES.pop("cos", None)
    else:
        real_cos = np.cos

        def cos_spy_c(a, *args, **kw):
            if np.ndim(a) == 0:
                used.append(float(a))
            return real_cos(a, *args, **kw)

        with stubs.patch_attr(np, "cos", cos_spy_c):
            c = C.DirectSamplingContour(_M(), alpha, sample=sample, deg_step=deg)
    coords = c.coordinates
    h.reach()
    M = 360 // deg
    h.check(np.shape(coords) == (M, 2), "one-vertex-per-direction", f"{np.shape(coords)} for {M} directions")
    nv = np.shape(coords)[0]
    rad = deg * math.pi / 180
    spec = [0.5 * math.pi + 2 * rad - j * rad for j in range(M)]        # one full turn, documented start
    # the directions projected on: the first M of them are the documented grid (mod 2 pi), later ones repeat it
    def on_grid(j):
        d = (used[j] - spec[j % M]) / (2 * math.pi)
        return abs(d - round(d)) < 1e-9

    if len(used) >= M and all(on_grid(j) for j in range(M)):
        thetas = list(used[:M])       # same doubles as the implementation: both sides are the same terms (fast)
    else:
        # the implementation does not project on the documented grid one direction at a time (it may still be right,
        # e.g. by using a symmetry): judge the edges against the documented directions only
        thetas = spec
    xs = h.arr([r[0] for r in rows])
    ys = h.arr([r[1] for r in rows])
    offs = []
    for th in thetas:
        z = xs * float(np.cos(th)) + ys * float(np.sin(th))
        if h.sym:
            npx.MERGE_SORT[0] = True
            try:
                q = npx.quantile(z, 1 - alpha)
            finally:
                npx.MERGE_SORT[0] = False
        else:
            q = np.quantile(z, 1 - alpha)
        offs.append(q)
        if h.sym:
            # a quantile lies between the smallest and the largest projection, and |x cos + y sin| <= 10 sqrt(2) for
            # points of [0,10]^2: stated once per direction so that the tolerance queries need no case split over the
            # order statistics (trivially true fact, listed as an assumption)
            h.E.axiom(sym.bterm(sym.And(sym.lift(q) <= 14.2, sym.lift(q) >= -14.2)))

    def on_line(k, j):
        vx, vy = coords[k % nv, 0], coords[k % nv, 1]
        d = vx * float(np.cos(thetas[j % M])) + vy * float(np.sin(thetas[j % M])) - offs[j % M]
        tol = 1e-6 * 30
        return (sym.And(d <= tol, d >= -tol) if h.sym else abs(d) <= tol)

    # edge k (vertex k -> vertex k+1, cyclically) lies on the tangent line of direction m(k); successive normals
    # advance by exactly the step (m(k+1) = m(k) + 1) and every direction is used once.  The documented start puts
    # edge k on direction k + 2; other offsets are tried only if that fails.
    label = "every-edge-on-the-(1-alpha)-quantile-tangent-line-of-its-direction"

    if h.sym:
        import z3
        fresh = [z3.Real(f"R!{j}") for j in range(M)]
        subs = [(sym.lift(offs[j]).t, fresh[j]) for j in range(M)]
        side = z3.And(*[z3.And(f <= sym.rterm(14.2), f >= sym.rterm(-14.2)) for f in fresh])

    def holds(c):
        if not h.sym:
            return bool(c)
        # generalisation: the order-statistic terms (ite networks) are replaced by fresh reals that only keep their
        # bound - if the tangent condition holds for arbitrary offsets it holds for the real ones (sound), and the
        # query becomes plain linear arithmetic
        t = z3.substitute(sym.bterm(c), *subs)
        sv = z3.Solver()
        sv.set("timeout", 10000)
        sv.add(side, z3.Not(t))
        r = str(sv.check())
        h.E.stats["queries"]["generalised_" + r] = h.E.stats["queries"].get("generalised_" + r, 0) + 1
        if r == "unsat":
            return True
        return h.E.prove(sym.bterm(c)) == "unsat"

    ms = []
    for k in range(nv):
        mk = None
        cands = [2 + k] if not ms else [ms[-1] + 1]
        cands += [m for m in range(M) if m % M != cands[0] % M][: (M if nv <= 12 else 0)]
        for m in cands:
            if holds(on_line(k, m)) and holds(on_line(k + 1, m)):
                mk = m % M
                break
        if mk is None:
            m = cands[0]
            h.check(on_line(k, m), label, f"edge {k}: start vertex not on the tangent line of direction {m % M}")
            h.check(on_line(k + 1, m), label, f"edge {k}: end vertex not on the tangent line of direction {m % M}")
            return
        ms.append(mk)
    h.results.append((label, "proved" if h.sym else "ok"))
    h.check(all((ms[(k + 1) % nv] - ms[k]) % M == 1 for k in range(nv)) and len(set(ms)) == nv == M,
            "normals-advance-by-the-step-and-cover-the-circle-once", f"directions per edge: {ms}")


def h_default_n(h):
    """no sample supplied: n = int(100/alpha) points are drawn from the model"""
    C = shim.mod("contours")
    alpha = h.cfg["alpha"]
    m = _M()
    c = C.DirectSamplingContour(m, alpha, deg_step=60)
    h.check(m.asked == [int(100 / alpha)], "default-sample-size-100-over-alpha", f"{m.asked}")
    h.check(c.sample is not None and np.shape(c.coordinates) == (6, 2), "sample-kept-and-contour-computed")
    m2 = _M()
    C.DirectSamplingContour(m2, alpha, n=77, deg_step=60)
    h.check(m2.asked == [77], "explicit-n-honoured")


def h_large_sample(h):
    """CONCRETE (not solver-based): one large sample (the symbolic bound is 51-80 points), every edge against the
    empirical quantile of the projected sample - guards code paths that depend on the sample size"""
    if h.sym:
        h.note("concrete obligation: decided by the run on the real libraries only")
        return
    C = shim.mod("contours")
    n, deg, alpha = h.cfg["n"], h.cfg["deg_step"], h.cfg["alpha"]
    rng = np.random.default_rng(h.cfg["seed"])
    sample = np.c_[np.round(rng.weibull(1.4, n) * 2.0, 2), np.round(rng.lognormal(1.0, 0.5, n), 2)]   # ties, tail
    if h.cfg.get("int"):
        # integer-typed observations (decimetres, tenths of seconds): same contour as for the same values as floats
        sample = np.round(sample * 10).astype(np.int64)
    c = C.DirectSamplingContour(_M(), alpha, sample=sample, deg_step=deg)
    h.reach()
    M = int(round(360 / deg))
    co = np.asarray(c.coordinates, dtype=float)
    h.check(co.shape == (M, 2), "one-vertex-per-direction", f"{co.shape}")
    # the direction grid: normals at pi/2 - j * step (anchored on the second axis, see the class documentation);
    # every edge must lie on the tangent line of one grid direction, successive edges on successive directions
    th = 0.5 * np.pi - 2 * np.pi * np.arange(M) / M
    q = np.array([np.quantile(sample[:, 0] * np.cos(t) + sample[:, 1] * np.sin(t), 1 - alpha) for t in th])
    scale = float(np.abs(sample).max())

    def on(v, j):
        return abs(v[0] * np.cos(th[j]) + v[1] * np.sin(th[j]) - q[j]) <= 1e-7 * scale

    js, bad = [], 0
    for k in range(M):
        a, b = co[k], co[(k + 1) % M]
        prev = js[-1] if js and js[-1] is not None else None
        cands = ([(prev + 1) % M, (prev - 1) % M] if prev is not None else []) + list(range(M))
        j = next((j for j in cands if on(a, j) and on(b, j)), None)
        js.append(j)
        bad += j is None
    h.check(bad == 0, "every-edge-on-the-(1-alpha)-quantile-tangent-line-of-its-direction",
            f"{bad} of {M} edges lie on no tangent line of the direction grid (n={n}, deg_step={deg})")
    if bad == 0:
        d = {(js[(k + 1) % M] - js[k]) % M for k in range(M)}
        h.check(len(d) == 1 and d <= {1, M - 1} and len(set(js)) == M,
                "normals-advance-by-the-step-and-cover-the-circle-once", f"steps between successive edges: {sorted(d)}")


def obligations(tier):
    # concrete large samples: n * (number of directions + 2) on both sides of 2**24
    yield ("large_sample", h_large_sample, {"n": 60000, "deg_step": 1, "alpha": 0.05, "seed": 3}, {})
    yield ("large_sample", h_large_sample, {"n": 300000, "deg_step": 5, "alpha": 0.001, "seed": 4}, {})
    for deg, alpha in ((8, 0.1), (30, 0.25), (5, 0.05)):
        yield ("large_sample", h_large_sample, {"n": 80, "deg_step": deg, "alpha": alpha, "seed": 5, "int": True}, {})
    for d in DIVISORS:
        if tier == "quick" and d < 5:
            continue   # 360..90 directions: minutes each, thorough tier
        for alpha in ((0.1,) if tier == "quick" and d not in (5, 60) else ((0.05, 0.1, 0.25) if tier == "quick" else (0.01, 0.05, 0.1, 0.25, 0.3))):
            K = 3 if tier == "quick" or d < 5 else 4
            if alpha >= 0.25:
                K = 3   # with 4 equal groups the (1-alpha)-quantile falls between two DISTINCT points for every
                        # direction at once: those interpolated (non-linear) queries were not decided reliably
                        # (900 s for 6 directions; timeouts under load for 12-18 directions)
            rep = 17 + (d % 4) if K == 3 else 14 + (d % 4)
            yield ("tangent", h_tangent, {"deg_step": d, "distinct": K, "repeat": rep, "alpha": alpha},
                   {"timeout_ms": 120000 if tier == "quick" else 900000, "budget_s": 1500 if tier == "quick" else 7200})
    for alpha in (0.3, 0.07, 0.013):
        yield ("default_n", h_default_n, {"alpha": alpha}, {})
