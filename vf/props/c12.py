"""C12 - maximum-likelihood fits: the part virocon's own code contributes (plumbing around scipy's optimiser)."""

from __future__ import annotations

import numpy as np

from .. import sym, shim, stubs
from .families import FAMILIES, subsets, declare_params

PROPERTY = "C12"
LEVEL_TEXT = ("bounded symbolic execution of every family's _fit_mle against a contract stub of scipy.stats.<family>.fit: "
              "decides that the optimiser is started at the instance's current parameters (image under the documented "
              "mapping), that its result is stored in the right parameters (round trip), and the closed-form "
              "LogNormalNormFit estimator's scale equivariance; the optimiser-quality clauses of the property are NOT decided")
FUNCTIONS = [
    "distributions.Distribution.fit",
    "distributions.WeibullDistribution._fit_mle", "distributions.LogNormalDistribution._fit_mle",
    "distributions.NormalDistribution._fit_mle", "distributions.LogNormalNormFitDistribution._fit_mle",
    "distributions.ExponentiatedWeibullDistribution._fit_mle", "distributions.GeneralizedGammaDistribution._fit_mle",
    "distributions.VonMisesDistribution._fit_mle", "distributions.ScipyDistribution._fit_mle",
]
BOUNDS = {
    "quick": "9 families x every proper subset of fixed parameters (incl. none) x method spelling; start values, fixed "
             "values and 4 data points symbolic; closed-form estimator with 3 data points and symbolic scale factor; histories 'fit A (fixed set SA) then fit a fresh B (fixed set SB, |SB|<=1)'",
    "thorough": "as quick with 5 data points and 4 points for the closed form; all ordered pairs of fixed sets in the "
                "two-fit history",
}
OUTSIDE = [
    "NOT DECIDED (depends on scipy.optimize on concrete data): that the optimiser does not lose likelihood against the "
    "start or generating parameters; finiteness/admissibility of its output; scale equivariance of the numerically "
    "optimised families",
]
ASSUMPTIONS = [
    "scipy.stats.<family>.fit contract stub (vf/stubs.py): returns fixed parameters unchanged, arbitrary estimates "
    "elsewhere, scipy 1.14 keyword validation; 'likelihood not lower than at the start' is scipy's own monotonicity "
    "given that the start vector is the instance's parameters - which is what is decided here",
    "reference mapping table vf/props/families.py",
]


def _fixed_slots(fam_scipy, kw):
    import scipy.stats as sts
    real = getattr(sts, fam_scipy)
    shapes = [s.strip() for s in real.shapes.split(",")] if real.shapes else []
    k = len(shapes)
    fx = [None] * (k + 2)
    for j, s in enumerate(shapes):
        for n in (f"f{j}", f"f{s}", f"fix_{s}"):
            if n in kw:
                fx[j] = kw[n]
    fx[k] = kw.get("floc")
    fx[k + 1] = kw.get("fscale")
    return fx


def slot_deps(fam):
    """which virocon parameters each scipy slot depends on (probed numerically on the reference mapping)"""
    base = {p: 0.5 * (lo + hi) for p, (lo, hi) in fam.ranges.items()}
    r0 = [float(v) for v in fam.ref(base)]
    deps = [set() for _ in r0]
    for p in fam.params:
        t = dict(base)
        t[p] = base[p] * 1.37 + 0.11
        r1 = [float(v) for v in fam.ref(t)]
        for i in range(len(r0)):
            if abs(r1[i] - r0[i]) > 1e-12:
                deps[i].add(p)
    return deps


def _fit_and_log(h, fam, d, data, method):
    if h.sym:
        n0 = len(stubs.FIT_LOG)
        d.fit(data, method)
        return [dict(c, args=c["shape_starts"], kw={"loc": c["loc_start"], "scale": c["scale_start"]},
                     fx=list(c["fixed"])) for c in stubs.FIT_LOG[n0:]]
    with stubs.record_real_fit(fam.scipy) as log:
        d.fit(data, method)
    for c in log:
        c["fx"] = _fixed_slots(fam.scipy, c["kw"])
    return log


def _check_call(h, fam, c, theta0, S, d, tag=""):
    ref0 = fam.ref(theta0)
    k = len(ref0) - 2
    deps = slot_deps(fam)
    starts = list(c["args"]) + [None] * (k - len(c["args"])) + [c["kw"].get("loc"), c["kw"].get("scale")]
    for i in range(k + 2):
        want_fixed = deps[i] <= set(S)
        is_fixed = c["fx"][i] is not None
        h.check(want_fixed == is_fixed, tag + "exactly-the-fixed-parameters-are-held-fixed",
                f"scipy slot {i} (depends on {sorted(deps[i])}): fixed in the call = {is_fixed}, declared fixed = {want_fixed}")
        if is_fixed:
            h.close(c["fx"][i], ref0[i], tag + "fixed-value-passed")
            continue
        h.check(starts[i] is not None, tag + "start-value-given", f"no start value for free scipy slot {i}")
        h.close(starts[i], ref0[i], tag + "optimiser-starts-at-current-parameters")
    back = fam.ref(d.parameters)
    for i in range(k + 2):
        if c["fx"][i] is not None:
            continue        # a fixed slot is judged by C11 (the object keeps the declared value, whatever scipy echoes)
        h.close(back[i], c["result"][i], tag + "result-round-trip", rtol=1e-9)


def _closed_form(h, fam, d, theta0, S, data, tag=""):
    """an estimator that does not call scipy's optimiser is judged against the closed-form (conditional) MLE, which
    exists for the normal and the log-normal family: mu_hat = mean(t), sigma_hat^2 = mean((t - mu_used)^2) with
    t = x resp. log x and a fixed parameter kept at its value.  Returns False if the family has no closed form."""
    if fam.cls not in ("NormalDistribution", "LogNormalDistribution"):
        return False
    n = len(data)
    t = [data[i] if fam.cls == "NormalDistribution" else np.log(data[i]) for i in range(n)]
    mu = theta0["mu"] if "mu" in S else sum(t) / n
    h.close(d.mu, mu, tag + "closed-form-location-is-the-(conditional)-mle", rtol=1e-9)
    if "sigma" in S:
        h.close(d.sigma, theta0["sigma"], tag + "closed-form-keeps-fixed-sigma")
    else:
        var = sum((ti - mu) ** 2 for ti in t) / n
        h.close(d.sigma * d.sigma, var, tag + "closed-form-sigma-is-the-(conditional)-mle-about-the-location-in-force",
                rtol=1e-9)
        h.check(d.sigma >= 0, tag + "sigma-nonnegative")
    return True


def h_sequence(h):
    """history: fit instance A (fixed set SA), then a fresh instance B (fixed set SB) - B's fit is B's own"""
    fam = FAMILIES[h.cfg["family"]]
    SA = tuple(p for p in h.cfg["fixedA"].split("+") if p)
    SB = tuple(p for p in h.cfg["fixedB"].split("+") if p)
    if h.sym:
        stubs.install_fit()
    objs = []
    for tag, S in (("A", SA), ("B", SB)):
        fixed = declare_params(h, fam, f"{tag}f_", names=S)
        start = declare_params(h, fam, f"{tag}s_", names=[p for p in fam.params if p not in S])
        kw = {f"f_{p}": v for p, v in fixed.items()}
        kw.update(start)
        theta0 = dict(start)
        theta0.update(fixed)
        objs.append((tag, S, fam.make(**kw), theta0))
    data = h.reals("d", h.cfg["n"], 2.5, 8.0)  # inside the support for every admissible location
    for tag, S, d, theta0 in objs:
        log = _fit_and_log(h, fam, d, data, "mle")
        if len(log) == 0 and _closed_form(h, fam, d, theta0, S, data, tag=f"{tag}:"):
            continue
        h.check(len(log) == 1, "scipy-fit-called-once")
        _check_call(h, fam, log[0], theta0, S, d, tag=f"{tag}:")
    h.reach()
    # and A is still what its own fit made it
    tagA, SA_, dA, thA = objs[0]
    for p in SA:
        h.close(dA.parameters[p], thA[p], "A-fixed-unchanged-by-B")


def h_plumbing(h):
    fam = FAMILIES[h.cfg["family"]]
    S = tuple(p for p in h.cfg["fixed"].split("+") if p)
    fixed = declare_params(h, fam, "f_", names=S)
    start = declare_params(h, fam, "s_", names=[p for p in fam.params if p not in S])
    kw = {f"f_{p}": v for p, v in fixed.items()}
    kw.update(start)
    d = fam.make(**kw)
    theta0 = dict(start)
    theta0.update(fixed)
    data = h.reals("d", h.cfg["n"], 2.5, 8.0)  # inside the support for every admissible location
    method = h.cfg["method"]
    if h.sym:
        stubs.install_fit()
        d.fit(data, method)
        log = [dict(c, args=c["shape_starts"], kw={"loc": c["loc_start"], "scale": c["scale_start"]},
                    fx=list(c["fixed"])) for c in stubs.FIT_LOG]
    else:
        with stubs.record_real_fit(fam.scipy) as log:
            d.fit(data, method)
        for c in log:
            c["fx"] = _fixed_slots(fam.scipy, c["kw"])
    h.reach()
    if len(log) == 0 and _closed_form(h, fam, d, theta0, S, data):
        return
    h.check(len(log) == 1, "scipy-fit-called-once", "the estimator must run scipy's optimiser exactly once")
    c = log[0]
    _check_call(h, fam, c, theta0, S, d)
    if h.sym:
        h.check(c["data"] is data, "fitted-on-unmodified-data")


def h_normfit_equivariance(h):
    """closed-form estimator: fit(c*x) = (c*mu_norm, c*sigma_norm); and it is the sample mean / sample std"""
    fam = FAMILIES["LogNormalNormFit"]
    n = h.cfg["n"]
    x = h.reals("d", n, 0.3, 6.0)
    c = h.real("c", 0.2, 5.0)
    d1, d2 = fam.make(), fam.make()
    d1.fit(x)
    d2.fit(c * x)
    h.reach()
    m = sum(x[i] for i in range(n)) / n
    h.close(d1.mu_norm, m, "mu_norm-is-sample-mean")
    var = sum((x[i] - m) ** 2 for i in range(n)) / (n - 1)
    h.close(d1.sigma_norm * d1.sigma_norm, var, "sigma_norm-is-sample-std", rtol=1e-9)
    h.check(d1.sigma_norm >= 0, "sigma_norm-nonnegative")
    h.close(d2.mu_norm, c * d1.mu_norm, "location-scale-equivariance", rtol=1e-9)
    h.close(d2.sigma_norm, c * d1.sigma_norm, "location-scale-equivariance", rtol=1e-9)


def obligations(tier):
    n = 4 if tier == "quick" else 5
    for fname, fam in FAMILIES.items():
        if fname == "LogNormalNormFit":
            continue
        for S in subsets(fam.params):
            if len(S) == len(fam.params):
                continue
            for method in (("mle",) if (tier == "quick" and S) else ("mle", "MLE")):
                yield ("plumbing", h_plumbing, {"family": fname, "fixed": "+".join(S), "n": n, "method": method}, {})
    for fname, fam in FAMILIES.items():
        if fname == "LogNormalNormFit":
            continue
        proper = [S for S in subsets(fam.params) if len(S) < len(fam.params)]
        for SA in proper:
            for SB in proper:
                if not SA or SA == SB:
                    continue
                if tier == "quick" and len(SB) > 1:
                    continue
                yield ("sequence", h_sequence, {"family": fname, "fixedA": "+".join(SA), "fixedB": "+".join(SB), "n": 3}, {})
    yield ("normfit_equivariance", h_normfit_equivariance, {"n": 3 if tier == "quick" else 4}, {})
