"""C14 - dependence functions are fitted within bounds, (optimally), in dependency order - the plumbing and the protocol."""

from __future__ import annotations

import itertools

import numpy as np

from .. import sym, shim, stubs, npx

PROPERTY = "C14"
LEVEL_TEXT = ("bounded symbolic execution of DependenceFunction.fit/_fit/register/callback, fit_function, "
              "convert_bounds_for_curve_fit and fit_constrained_function against recording contract stubs of "
              "scipy.optimize.curve_fit / minimize: decides that data, start values, bounds, weights and declared "
              "constraints reach the optimiser unchanged and in parameter order, that its result is stored name by "
              "name, and - over all fit-call orders and re-fits of chains of length 2-3 - that every function's final "
              "parameters come from a fit made after the final fit of all its conditioners; optimiser quality is NOT decided")
FUNCTIONS = [
    "dependencies.DependenceFunction.__init__", "dependencies.DependenceFunction.fit",
    "dependencies.DependenceFunction._fit", "dependencies.DependenceFunction.register",
    "dependencies.DependenceFunction.callback", "_fitting.fit_function", "_fitting.convert_bounds_for_curve_fit",
    "_fitting.fit_constrained_function", "_fitting.get_least_squares_error_func",
]
BOUNDS = {
    "quick": "shapes with 2-3 parameters, 3 symbolic support points, all 4^k bound kinds per parameter pair "
             "(None/finite on each side), with/without weights callable, with/without constraints (dict and list); "
             "protocol: chains A<-B, A<-B<-C and B depending on two conditioners, every order of the fit calls, one "
             "and two rounds of fitting (all histories enumerated, parameter vectors symbolic)",
    "thorough": "as quick plus three rounds and chains with a shared conditioner",
}
OUTSIDE = [
    "NOT DECIDED (scipy.optimize on concrete data): that curve_fit / SLSQP return a point inside the bounds with "
    "locally minimal residual; uniqueness for linear shapes",
    "the direction of sigma=weights (scipy divides residuals by sigma; the docstring speaks of 'weighting with y'): the "
    "property text does not fix the convention, no assertion is made (open question, not a finding)",
]
ASSUMPTIONS = ["curve_fit / minimize contract stubs (vf/stubs.py OptimizerLog): arbitrary optimum of the right length"]


def _DF():
    return shim.mod("dependencies").DependenceFunction


def power3(x, a, b, c):
    return a + b * x ** c


def linear2(x, a=0.0, b=1.0):
    return a + b * x


BOUND_KINDS = {"none": (None, None), "lower": (0.0, None), "upper": (None, 9.0), "both": (-1.0, 7.5)}


def h_plumbing(h):
    DF = _DF()
    shape = {"power3": power3, "linear2": linear2}[h.cfg["shape"]]
    names = ["a", "b", "c"] if h.cfg["shape"] == "power3" else ["a", "b"]
    bk = h.cfg["bounds"]
    bounds = None
    weights = (lambda x, y: y) if h.cfg["weights"] == "y" else ((lambda x, y: 1 + x * x) if h.cfg["weights"] == "fx" else None)
    cons = h.cfg["constraints"]
    c0 = {"type": "ineq", "fun": lambda z: z[0] - 3.0}
    c1 = {"type": "ineq", "fun": lambda z: 5.0 - z[1]}
    constraints = {"none": None, "dict": c0, "list": [c0, c1]}[cons]
    p0 = [h.real(f"p0_{n}", -2.5, 3.0) for n in names]
    if bk != "absent":
        # finite bounds are symbolic (any value that keeps the start feasible - zero and negative ones included)
        bounds = []
        for i, k in enumerate(bk.split("/")):
            lo = hi = None
            if k in ("lower", "both"):
                lo = h.real(f"lo{i}", -5.0, 3.0)
                h.assume(lo <= p0[i] - 0.05)
            if k in ("upper", "both"):
                hi = h.real(f"hi{i}", -3.0, 9.0)
                h.assume(hi >= p0[i] + 0.05)
            bounds.append((lo, hi))
    d = DF(shape, bounds=bounds, constraints=constraints, weights=weights)
    d.parameters = dict(zip(names, p0))
    x = h.reals("x", 3, 0.5, 6.0)
    y = h.reals("y", 3, 0.5, 6.0)
    x0, y0 = list(x), list(y)          # the values before the fit
    with stubs.optimizer_stubs(h) as log:
        if cons != "none" and weights is not None:
            h.raises(lambda: d.fit(x, y), (NotImplementedError,), "weighted-constrained-fit-not-supported")
            return
        d.fit(x, y)
        refit = bool(h.cfg.get("refit"))
        if refit:
            # history: the SAME object is fitted again to new ordinates on the SAME abscissa array (a model re-fitted
            # to other data of the same intervals): everything handed to the optimiser must belong to the second data
            p1 = list(d.parameters.values())
            y2 = h.reals("y2", 3, 0.5, 6.0)
            y20 = list(y2)
            d.fit(x, y2)
    h.reach()
    h.check(len(log.calls) == (2 if refit else 1), "optimiser-called-once-per-fit")
    c = log.calls[0]
    if refit:
        c2 = log.calls[1]
        h.check(c2["kind"] == "curve_fit" and c2["f"] is d, "refit-fits-this-dependence-function")
        h.close(c2["x_at_call"], x0, "refit-fitted-to-the-new-points")
        h.close(c2["y_at_call"], y20, "refit-fitted-to-the-new-points")
        h.close(list(c2["p0"]), list(np.ravel(npx.deep_strip(c["popt"]))), "refit-starts-from-current-parameters")
        if weights is None:
            h.check(c2["sigma"] is None, "refit-no-weights-no-sigma")
        else:
            w2 = list(np.ravel(npx.deep_strip(weights(h.arr(x0) if h.sym else np.array(x0),
                                                      h.arr(y20) if h.sym else np.array(y20)))))
            sg2 = c2["sigma_at_call"]
            h.check(sg2 is not None and len(sg2) == len(w2), "refit-weights-evaluated-on-the-new-data")
            for i in range(1, len(w2)):
                h.close(sg2[i] * w2[0], sg2[0] * w2[i], "refit-weights-evaluated-on-the-new-data", rtol=1e-9)
        h.close(list(d.parameters.values()), list(np.ravel(npx.deep_strip(c2["popt"]))), "refit-result-stored-name-by-name")
        return
    if cons == "none":
        h.check(c["kind"] == "curve_fit", "unconstrained-fit-uses-curve_fit")
        h.check(c["f"] is d, "fits-this-dependence-function")
        h.close(c["x_at_call"], x0, "fitted-to-the-given-points")
        h.close(c["y_at_call"], y0, "fitted-to-the-given-points")
        h.close(list(x), x0, "callers-data-unchanged-by-the-fit")
        h.close(list(y), y0, "callers-data-unchanged-by-the-fit")
        h.close(list(c["p0"]), p0, "start-values-are-current-parameters-in-order")
        if bounds is None:
            lo, hi = c["bounds"]
            h.check(np.all(np.isneginf(lo)) and np.all(np.isposinf(hi)), "no-bounds-declared-none-passed")
        else:
            lo, hi = c["bounds"]
            h.check(len(lo) == len(names) and len(hi) == len(names), "one-bound-pair-per-parameter")
            for i, (l, u) in enumerate(bounds):
                if l is None:
                    h.check(not isinstance(lo[i], (sym.SR,)) and np.isneginf(float(lo[i])), "lower-bounds-in-parameter-order", f"{lo}")
                else:
                    h.close(lo[i], l, "lower-bounds-in-parameter-order")
                if u is None:
                    h.check(not isinstance(hi[i], (sym.SR,)) and np.isposinf(float(hi[i])), "upper-bounds-in-parameter-order", f"{hi}")
                else:
                    h.check(not (not isinstance(hi[i], (sym.SR,)) and np.isinf(float(hi[i]))), "upper-bounds-in-parameter-order",
                            f"finite upper bound replaced by {hi[i]}")
                    h.close(hi[i], u, "upper-bounds-in-parameter-order")
        if weights is None:
            h.check(c["sigma"] is None, "no-weights-no-sigma")
        else:
            # the weights callable evaluated on the (original) data, up to a common positive factor (curve_fit with
            # relative sigma does not depend on it)
            w = list(np.ravel(npx.deep_strip(weights(h.arr(x0) if h.sym else np.array(x0), h.arr(y0) if h.sym else np.array(y0)))))
            sg = c["sigma_at_call"]
            h.check(sg is not None and len(sg) == len(w), "weights-callable-evaluated-on-the-data")
            for i in range(1, len(w)):
                h.close(sg[i] * w[0], sg[0] * w[i], "weights-callable-evaluated-on-the-data", rtol=1e-9)
            h.check(sg[0] > 0, "weights-positive")
        res = c["popt"]
    else:
        h.check(c["kind"] == "minimize", "constrained-fit-uses-minimize")
        h.check(c["method"] == "SLSQP", "slsqp")
        h.close(list(c["x0"]), p0, "start-values-are-current-parameters-in-order")
        gb = c["bounds"]
        if bounds is None:
            h.check(gb is None, "declared-bounds-forwarded", f"{gb}")
        else:
            h.check(gb is not None and len(gb) == len(bounds), "declared-bounds-forwarded", f"{gb}")
            for (gl, gu), (l, u) in zip(gb or [], bounds):
                for g_, w_ in ((gl, l), (gu, u)):
                    if w_ is None:
                        h.check(g_ is None, "declared-bounds-forwarded", f"{gb}")
                    else:
                        h.check(g_ is not None, "declared-bounds-forwarded", f"{gb}")
                        if g_ is not None:
                            h.close(g_, w_, "declared-bounds-forwarded")
        got = c["constraints"]
        want = constraints
        same = (got is want) or (isinstance(got, (list, tuple)) and isinstance(want, list) and len(got) == len(want)
                                 and all(g is w for g, w in zip(got, want))) or \
               (isinstance(got, (list, tuple)) and isinstance(want, dict) and len(got) == 1 and got[0] is want)
        h.check(same, "declared-constraints-forwarded-to-the-optimiser", f"optimiser received constraints={got!r}")
        # objective: sum of squared residuals of this function on the given points
        z = [h.real(f"z_{n}", 0.2, 3.0) for n in names]
        val = c["fun"](h.arr(z) if not h.sym else np.array(z, dtype=object))
        ref = sum((shape(x[i], *z) - y[i]) ** 2 for i in range(3))
        h.close(val, ref, "objective-is-the-squared-residual")
        res = c["x"]
    h.check(list(d.parameters.keys()) == names, "parameter-names-kept")
    h.close(list(d.parameters.values()), list(np.ravel(npx.deep_strip(res))), "result-stored-name-by-name")


def _chain(h, kind):
    """dependence functions with symbolic start parameters; returns (functions dict in creation order, deps)"""
    DF = _DF()

    def base(x, a, b):
        return a + b * x

    def on_one(x, a, b, inner):
        return a + b * inner(x)

    def on_two(x, a, u, v):
        return a + u(x) * v(x)

    fs = {}
    fs["A"] = DF(base)
    if kind == "two":
        fs["B"] = DF(on_one, inner=fs["A"])
        deps = {"A": [], "B": ["A"]}
    elif kind == "three":
        fs["B"] = DF(on_one, inner=fs["A"])
        fs["C"] = DF(on_one, inner=fs["B"])
        deps = {"A": [], "B": ["A"], "C": ["B"]}
    elif kind == "join":
        fs["A2"] = DF(base)
        fs["B"] = DF(on_two, u=fs["A"], v=fs["A2"])
        deps = {"A": [], "A2": [], "B": ["A", "A2"]}
    elif kind == "shared":
        fs["B"] = DF(on_one, inner=fs["A"])
        fs["C"] = DF(on_one, inner=fs["A"])
        deps = {"A": [], "B": ["A"], "C": ["A"]}
    for name, f in fs.items():
        f.parameters = {k: h.real(f"{name}_{k}0", 0.2, 3.0) for k in f.parameters}
    return fs, deps


def h_protocol(h):
    fs, deps = _chain(h, h.cfg["chain"])
    names = list(fs)
    rounds = h.cfg["rounds"]
    orders = [tuple(o.split(">")) for o in h.cfg["orders"].split("|")]
    x = h.reals("x", 3, 0.5, 6.0)
    ys = {n: h.reals(f"y{n}", 3, 0.5, 6.0) for n in names}
    with stubs.optimizer_stubs(h) as log:
        views = []
        orig = log.curve_fit

        def spy(f, xdata, ydata, p0=None, **kw):
            views.append({n: tuple(fs[n].parameters.values()) for n in names})
            return orig(f, xdata, ydata, p0, **kw)

        with stubs.patch_attr(shim.mod("_fitting"), "curve_fit", spy):
            for r in range(rounds):
                for n in orders[r]:
                    fs[n].fit(x, ys[n])
    h.reach()
    final = {n: tuple(fs[n].parameters.values()) for n in names}
    who = {id(f): n for n, f in fs.items()}
    for n in names:
        mine = [k for k, c in enumerate(log.calls) if who.get(id(c["f"])) == n]
        h.check(len(mine) >= 1, "every-function-was-fitted", n)
        if not mine:
            continue
        last = mine[-1]
        c = log.calls[last]
        h.close(list(final[n]), list(np.ravel(npx.deep_strip(c["popt"]))), "final-parameters-are-the-last-fit")
        h.check(c["x"] is x and c["y"] is ys[n], "fitted-to-its-own-data")
        for dname in deps[n]:
            # at the time of n's last fit its conditioner already had its FINAL parameters
            seen = views[last][dname]
            same = len(seen) == len(final[dname]) and all(a is b for a, b in zip(seen, final[dname]))
            h.check(same, "final-fit-made-after-final-fit-of-all-conditioners",
                    f"{n} was last fitted while {dname} still had earlier parameters")


def obligations(tier):
    kinds2 = ["none", "lower", "upper", "both"]
    for w in ("none", "y", "fx"):
        for cons in ("none", "dict", "list"):
            yield ("plumbing", h_plumbing, {"shape": "power3", "bounds": "absent", "weights": w, "constraints": cons}, {})
            for b in itertools.product(kinds2, repeat=2):
                if tier == "quick" and w != "none" and b[0] != b[1]:
                    continue
                yield ("plumbing", h_plumbing, {"shape": "linear2", "bounds": "/".join(b), "weights": w,
                                                "constraints": cons}, {})
            yield ("plumbing", h_plumbing, {"shape": "power3", "bounds": "lower/none/both", "weights": w,
                                            "constraints": cons}, {})
        for shp in ("power3", "linear2"):
            yield ("plumbing", h_plumbing, {"shape": shp, "bounds": "absent", "weights": w, "constraints": "none",
                                            "refit": True}, {})
    chains = {"two": ["A", "B"], "three": ["A", "B", "C"], "join": ["A", "A2", "B"]}
    if tier == "thorough":
        chains["shared"] = ["A", "B", "C"]
    for chain, names in chains.items():
        perms = [">".join(p) for p in itertools.permutations(names)]
        for rounds in ((1, 2) if tier == "quick" else (1, 2, 3)):
            for combo in itertools.product(perms, repeat=rounds):
                if rounds == 3 and len(set(combo)) < 2:
                    continue
                yield ("protocol", h_protocol, {"chain": chain, "rounds": rounds, "orders": "|".join(combo)}, {})
