"""C06 - joint density factorises hierarchically; cdf and marginals are its integrals (wiring part)."""

from __future__ import annotations

import itertools
import math

import numpy as np

from .. import sym, shim, stubs
from .models import structures, skey, parse_skey, build_model
from .c05 import expected

PROPERTY = "C06"
LEVEL_TEXT = ("bounded symbolic execution of pdf, cdf, marginal_pdf, marginal_cdf, marginal_icdf with scipy kernels "
              "uninterpreted and scipy.integrate.nquad replaced by a probing stub: decides the factorisation of the joint "
              "density and which integrand is integrated over which variable with which limits; the numerical clauses "
              "(integrates to one, quadrature/Monte-Carlo agreement) are not decided")
FUNCTIONS = [
    "jointmodels.GlobalHierarchicalModel.pdf", "jointmodels.MultivariateModel.cdf",
    "jointmodels.GlobalHierarchicalModel.marginal_pdf", "jointmodels.GlobalHierarchicalModel.marginal_cdf",
    "jointmodels.GlobalHierarchicalModel.marginal_icdf", "jointmodels.MultivariateModel.marginal_icdf",
]
BOUNDS = {
    "quick": "n_dim in {2,3}, all 2+6 dependence structures, 2 family rotations; evaluation points as row vector, list "
             "and (2, n_dim) array; every dimension as marginal; all parameters, points and quadrature probe points symbolic",
    "thorough": "plus n_dim = 4 (24 structures) and 7 rotations",
}
OUTSIDE = [
    "NOT DECIDED (numerical): that quadrature converges, that the density integrates to one, Monte-Carlo error of "
    "marginal_icdf, marginal_cdf(marginal_icdf(p)) = p",
    "accuracy of scipy kernels",
]
ASSUMPTIONS = [
    "scipy.integrate.nquad contract (vf/stubs.py NquadProbe): func(x0..xn, *args) with xk over ranges[k]",
    "scipy kernels uninterpreted; pdf >= 0",
]


def _ref_pdf_row(h, dims, row):
    f = 1.0
    for i, d in enumerate(dims):
        th = d.theta(None if d.cond is None else row[d.cond])
        f = f * expected(h, d.fam, "pdf", row[i], th)
    return f


def _support_lo(d, pt):
    """lower end of the support of variable d at the point pt (its conditioning value taken from pt)"""
    if d.fam.cls == "WeibullDistribution":
        return d.theta(None if d.cond is None else pt[d.cond])["gamma"]
    return 0.0


def _lower_ok(h, lo, d, pt):
    """an integration over [lo, .) equals the one over [0, .) iff the density vanishes below lo: lo is 0 or the lower
    end of the variable's support"""
    s_ = _support_lo(d, pt)
    if h.sym:
        return sym.Or(sym.lift(lo) == 0.0, sym.lift(lo) == sym.lift(s_))
    return abs(float(lo)) <= 1e-12 or abs(float(lo) - float(s_)) <= 1e-12


def h_pdf(h):
    struct = parse_skey(h.cfg["struct"])
    nd = len(struct)
    model, dims = build_model(h, struct, rot=h.cfg["rot"])
    kind = h.cfg["input"]
    nrows = 2 if kind == "array2" else 1
    if kind.startswith("int"):
        # integer-typed evaluation points (model.pdf([2, 6]), an integer grid): same density as at 2.0, 6.0
        nrows = 2 if kind == "intarray2" else 1
        rows = [[2, 6, 3, 5][:nd], [4, 1, 2, 3][:nd]][:nrows]
        x = list(rows[0]) if kind == "intlist" else np.array(rows)
    else:
        rows = [[h.real(f"x{r}_{i}", 0.1, 7.0) for i in range(nd)] for r in range(nrows)]
    if kind.startswith("int"):
        pass
    elif kind == "row":
        x = h.arr(rows[0])
    elif kind == "list":
        x = list(rows[0])
    else:
        x = h.arr(rows)
    got = model.pdf(x)
    h.reach()
    h.check(np.shape(got) == (nrows,), "one-density-per-point", f"shape {np.shape(got)}")
    for r in range(nrows):
        ref = _ref_pdf_row(h, dims, rows[r])
        h.close(got[r], ref, "joint-pdf-is-product-of-conditional-densities")
        if h.sym:
            h.check(sym.lift(got[r]) >= 0, "pdf-nonnegative")
        else:
            h.check(got[r] >= 0, "pdf-nonnegative")


def h_cdf(h):
    struct = parse_skey(h.cfg["struct"])
    nd = len(struct)
    model, dims = build_model(h, struct, rot=h.cfg["rot"])
    nrows = h.cfg["rows"]
    rows = [[h.real(f"x{r}_{i}", 0.5, 7.0) for i in range(nd)] for r in range(nrows)]
    x = h.arr(rows) if nrows > 1 else h.arr(rows[0])
    probe = stubs.NquadProbe(h)
    with stubs.patch_attr(shim.mod("jointmodels"), "integrate", stubs.IntegrateProxy(probe)):
        got = model.cdf(x)
    h.reach()
    h.check(len(probe.calls) == nrows, "one-integral-per-point")
    h.check(np.shape(got) == (nrows,), "one-probability-per-point")
    for r, c in enumerate(probe.calls):
        h.check(len(c["ranges"]) == nd, "integrates-over-all-variables")
        # variable j of the integrand is model dimension j and runs over (0, x_rj): lower-left orthant
        h.close(c["integrand"], _ref_pdf_row(h, dims, c["probe"]), "integrand-is-joint-pdf-in-model-order")
        for j in range(nd):
            h.close(c["ranges"][j][0], 0.0, "lower-limit-zero")
            h.close(c["ranges"][j][1], rows[r][j], "upper-limit-is-own-coordinate")
        h.close(got[r], c["result"], "cdf-is-the-integral")


def h_marginal(h):
    struct = parse_skey(h.cfg["struct"])
    nd, dim, which = len(struct), h.cfg["dim"], h.cfg["which"]
    model, dims = build_model(h, struct, rot=h.cfg["rot"])
    if h.cfg.get("int"):
        xs = [2, 5]                  # integer-typed abscissae
        x = np.array(xs)
    else:
        xs = [h.real(f"x{k}", 0.5, 7.0) for k in range(2)]
        x = h.arr(xs)
    probe = stubs.NquadProbe(h)
    with stubs.patch_attr(shim.mod("jointmodels"), "integrate", stubs.IntegrateProxy(probe)):
        got = getattr(model, "marginal_" + which)(x, dim)
    h.reach()
    d = dims[dim]
    if d.cond is None:
        h.check(len(probe.calls) == 0, "unconditional-marginal-needs-no-integral")
        h.close(got, [expected(h, d.fam, which, xs[k], d.theta()) for k in range(2)], "marginal-of-unconditional-variable")
        return
    h.check(len(probe.calls) == 2, "one-integral-per-point")
    for k, c in enumerate(probe.calls):
        ts = c["probe"]
        if which == "pdf":
            h.check(len(ts) == nd - 1 and len(c["args"]) == 1, "integrates-over-all-other-variables")
            # the point handed to the joint pdf: coordinate `dim` is the abscissa, the others are the integration
            # variables; all of those have the same range (0, inf), so any bijection is right
            others = [i for i in range(nd) if i != dim]
            point_opts = []
            for perm in itertools.permutations(range(nd - 1)):
                pt = [None] * nd
                pt[dim] = xs[k]
                for o, pi in zip(others, perm):
                    pt[o] = ts[pi]
                point_opts.append(pt)
            for rg in c["ranges"]:
                h.check(rg[1] == math.inf, "upper-limit-infinity")
            perms = list(itertools.permutations(range(nd - 1)))
            if h.sym:
                alts = []
                for perm, pt in zip(perms, point_opts):
                    lows = [_lower_ok(h, c["ranges"][pi][0], dims[o], pt) for o, pi in zip(others, perm)]
                    alts.append(sym.And(sym.lift(c["integrand"]) == sym.lift(_ref_pdf_row(h, dims, pt)), *lows))
                h.check(sym.Or(*alts), "integrand-is-joint-pdf-with-abscissa-at-dim-and-limits-cover-the-support")
            else:
                ok = False
                for perm, pt in zip(perms, point_opts):
                    v = _ref_pdf_row(h, dims, pt)
                    if abs(c["integrand"] - v) <= 1e-9 * max(abs(v), 1e-300) and all(
                            _lower_ok(h, c["ranges"][pi][0], dims[o], pt) for o, pi in zip(others, perm)):
                        ok = True
                h.check(ok, "integrand-is-joint-pdf-with-abscissa-at-dim-and-limits-cover-the-support")
        else:
            h.check(len(ts) == nd and len(c["args"]) == 0, "integrates-over-all-variables")
            fin = [j for j, rg in enumerate(c["ranges"]) if rg[1] != math.inf]
            h.check(len(fin) == 1, "exactly-one-finite-upper-limit")
            j0 = fin[0]
            h.close(c["ranges"][j0][1], xs[k], "finite-limit-is-the-abscissa")
            others = [i for i in range(nd) if i != dim]
            rest = [j for j in range(nd) if j != j0]
            alts, oks = [], []
            for perm in itertools.permutations(rest):
                pt = [None] * nd
                pt[dim] = ts[j0]        # the variable that runs to the abscissa is the marginal's own variable
                for o, pj in zip(others, perm):
                    pt[o] = ts[pj]
                ref = _ref_pdf_row(h, dims, pt)
                lows = [_lower_ok(h, c["ranges"][j0][0], dims[dim], pt)] + [
                    _lower_ok(h, c["ranges"][pj][0], dims[o], pt) for o, pj in zip(others, perm)]
                if h.sym:
                    alts.append(sym.And(sym.lift(c["integrand"]) == sym.lift(ref), *lows))
                else:
                    oks.append(abs(c["integrand"] - ref) <= 1e-9 * max(abs(ref), 1e-300) and all(lows))
            if h.sym:
                h.check(sym.Or(*alts), "integrand-is-joint-pdf-limits-on-the-right-variable")
            else:
                h.check(any(oks), "integrand-is-joint-pdf-limits-on-the-right-variable")
        h.close(got[k], c["result"], "marginal-is-the-integral")


def h_marginal_icdf(h):
    struct = parse_skey(h.cfg["struct"])
    nd, dim = len(struct), h.cfg["dim"]
    model, dims = build_model(h, struct, rot=h.cfg["rot"])
    d = dims[dim]
    p = [0.3, 0.96]
    pf = h.cfg["pf"]
    log = []
    orig = model.draw_sample

    def rec(n, **kw):
        if h.sym:
            s = np.empty((3, nd), dtype=object)
            for r in range(3):
                for c in range(nd):
                    s[r, c] = h.real(f"s{len(log)}_{r}_{c}", 0.1, 9.0)
            s = s.view(sym.SymArray)
        else:
            s = orig(n, **kw)
        log.append((n, s, kw))
        return s

    model.draw_sample = rec
    got = model.marginal_icdf(np.array(p), dim, precision_factor=pf)
    h.reach()
    if d.cond is None:
        h.check(len(log) == 0, "unconditional-marginal-quantile-is-exact")
        h.close(got, [expected(h, d.fam, "icdf", q, d.theta()) for q in p], "exact-marginal-quantile")
        return
    h.check(len(log) == 1, "one-monte-carlo-sample")
    n, s, kw = log[0]
    n_expected = max(int((1 / min(min(p), 1 - max(p))) * 100 * pf), 100000)
    h.check(n == n_expected, "sample-size-rule", f"n={n}, documented {n_expected}")
    col = s[:, dim]
    if h.sym:
        from ..npx import quantile
        ref = quantile(col, np.array(p))
    else:
        ref = np.quantile(col, p)
    h.close(got, ref, "quantile-of-own-column")


def obligations(tier):
    for nd in ((2, 3) if tier == "quick" else (2, 3, 4)):
        rots = (0, 2) if tier == "quick" else (range(7) if nd <= 3 else (0, 3))
        for st in structures(nd):
            for rot in rots:
                for inp in ("row", "list", "array2", "intlist", "intarray2"):
                    yield ("pdf", h_pdf, {"struct": skey(st), "rot": rot, "input": inp}, {})
                for rows in (1, 2):
                    yield ("cdf", h_cdf, {"struct": skey(st), "rot": rot, "rows": rows}, {})
                for dim in range(nd):
                    for which in ("pdf", "cdf"):
                        yield ("marginal", h_marginal, {"struct": skey(st), "rot": rot, "dim": dim, "which": which}, {})
                        yield ("marginal", h_marginal, {"struct": skey(st), "rot": rot, "dim": dim, "which": which, "int": True}, {})
                    if rot == rots[0] if not isinstance(rots, range) else rot == 0:
                        for pf in (1, 0.05):
                            yield ("marginal_icdf", h_marginal_icdf, {"struct": skey(st), "rot": rot, "dim": dim, "pf": pf}, {})
