"""C08 - a conditional distribution is its template evaluated at the dependence values."""

from __future__ import annotations

import numpy as np

from .. import sym, shim
from .families import FAMILIES, SHIPPED, subsets, declare_params
from .c05 import expected, METHODS

PROPERTY = "C08"
FUNCTIONS = [
    "distributions.ConditionalDistribution.__init__", "distributions.ConditionalDistribution._get_param_values",
    "distributions.ConditionalDistribution.pdf", "distributions.ConditionalDistribution.cdf",
    "distributions.ConditionalDistribution.icdf", "distributions.ConditionalDistribution.draw_sample",
    "distributions.Distribution._get_rvs_size",
    "dependencies.DependenceFunction.__init__", "dependencies.DependenceFunction.__call__",
]
BOUNDS = {
    "quick": "7 shipped families as template x every partition of the parameters into fixed/dependent x "
             "{pdf,cdf,icdf,draw_sample} x given scalar / vector(2); dependence coefficients, fixed values, x and g "
             "symbolic; dependence shapes linear and exp3; one chained dependence function",
    "thorough": "as quick plus vector length 3, power3 shape, chains of length 2 and 3, ScipyDistribution templates",
}
OUTSIDE = [
    "numerical accuracy of scipy kernels; that rvs follows its own cdf (statistical)",
    "dependence callables that are not functions of their arguments (stateful callables)",
]
ASSUMPTIONS = [
    "scipy kernels / rvs are functions of their arguments and generator state (uninterpreted)",
    "reference mapping table vf/props/families.py",
]


def _shapes(h):
    """dependence shapes (as in virocon.predefined): value stays admissible for g >= 0"""

    def linear(x, a, b):
        return a + b * x

    def exp3(x, a, b, c):
        return a + b * np.exp(c * x)

    def power3(x, a, b, c):
        return a + b * x ** c

    def const(x, a, b):
        # a dependence function may ignore the conditioning value (and then returns a scalar for a vector given)
        return a + 0 * b

    return {"linear": linear, "exp3": exp3, "power3": power3, "const": const}


def _dep(h, shape, pname, lo, hi):
    """a DependenceFunction of the given shape with symbolic coefficients; returns (depfunc, pure evaluator)"""
    DF = shim.mod("dependencies").DependenceFunction
    f = _shapes(h)[shape]
    a = h.real(f"{pname}_a", lo, hi)
    b = h.real(f"{pname}_b", 0.05, 0.5)
    coef = {"a": a, "b": b}
    if shape not in ("linear", "const"):
        coef["c"] = h.real(f"{pname}_c", 0.2, 0.9) if shape == "power3" else h.real(f"{pname}_c", -0.9, -0.1)
    d = DF(f)
    d.parameters = dict(coef)
    return d, (lambda g: f(g, *coef.values()))


def _given(h, kind):
    if kind == "int":          # integer-typed conditioning values (e.g. a wind-speed bin index, np.arange grid)
        return 2, [2]
    if kind == "intvec":
        return np.array([1, 3]), [1, 3]
    n = {"scalar": 1, "vec2": 2, "vec3": 3}[kind]
    gs = [h.real(f"g{i}", 0.1, 2.0) for i in range(n)]
    return (gs[0] if kind == "scalar" else h.arr(gs)), gs


def h_conditional(h):
    fam = FAMILIES[h.cfg["family"]]
    method = h.cfg["method"]
    dep_names = tuple(p for p in h.cfg["dependent"].split("+") if p)
    fixed_names = [p for p in fam.params if p not in dep_names]
    fixed = declare_params(h, fam, "f_", names=fixed_names)
    deps, evals = {}, {}
    for p in dep_names:
        lo, hi = fam.ranges[p]
        deps[p], evals[p] = _dep(h, h.cfg["shape"], p, lo, min(hi, lo + 1.0))
    template = fam.make(**{f"f_{p}": v for p, v in fixed.items()})
    CD = shim.mod("distributions").ConditionalDistribution
    # the parameters dict is given in reverse order on purpose: order must not matter
    cond = CD(template, {p: deps[p] for p in reversed(dep_names)})
    given, gs = _given(h, h.cfg["given"])
    n = len(gs)
    if method == "icdf":
        xs = [h.real(f"p{i}", 0.02, 0.98) for i in range(n)]
    else:
        xs = [h.real(f"x{i}", 0.1, 8.0) for i in range(n)]
    scalar_given = h.cfg["given"] in ("scalar", "int")
    x = xs[0] if scalar_given else h.arr(xs)

    def theta_at(g):
        th = dict(fixed)
        for p in dep_names:
            th[p] = evals[p](g)
        return th

    h.reach()
    if method == "draw_sample":
        k = 2
        got = cond.draw_sample(k, given, random_state=h.generator(7))
        th = theta_at(given)
        size = k if scalar_given or not dep_names or h.cfg["shape"] == "const" else (k, n)
        ref = fam.ref(th)
        exp = getattr(h.K, fam.scipy).rvs(*ref, size=size, random_state=h.generator(7))
        h.check(np.shape(got) == np.shape(exp), "sample-shape", f"{np.shape(got)} vs {np.shape(exp)}")
        h.close(got, exp, "sample-is-template-rvs-at-dependence-values")
        return
    got = getattr(cond, method)(x, given)
    # (a) vectorised call == template at dependence values, element by element
    for j in range(n):
        gj = gs[j]
        ej = expected(h, fam, method, xs[j], theta_at(gj))
        aj = got if scalar_given else got[j]
        h.close(aj, ej, "template-at-dependence-values")
    # (b) vectorised == one at a time
    if n > 1:
        for j in range(n):
            one = getattr(cond, method)(xs[j], gs[j])
            h.close(got[j], one, "vectorised-equals-scalar")
    # (c) fixed parameters do not depend on g
    pv1 = cond._get_param_values(gs[0])
    for p in fixed_names:
        h.close(pv1[p], fixed[p], "fixed-parameter-constant")


def h_chained(h):
    """a dependence function that takes other dependence functions as parameters evaluates them at the same g"""
    DF = shim.mod("dependencies").DependenceFunction
    depth = h.cfg["depth"]

    def base(x, a, b):
        return a + b * x

    def outer(x, a, b, c, d_of_x):
        return (a + b * x ** 2) / (1 + c * d_of_x(x))

    def outer2(x, a, inner_of_x):
        return a + 2 * inner_of_x(x)

    ca, cb = h.real("base_a", 0.5, 2), h.real("base_b", 0.1, 1)
    d0 = DF(base)
    d0.parameters = {"a": ca, "b": cb}
    oa, ob, oc = h.real("o_a", 0.5, 2), h.real("o_b", 0.1, 1), h.real("o_c", 0.1, 1)
    if h.cfg["binding"] == "kwarg":
        d1 = DF(outer, d_of_x=d0)
    else:
        d1 = DF(outer, bounds=None, constraints=None, weights=None, latex=None, **{"d_of_x": d0})
    d1.parameters = {"a": oa, "b": ob, "c": oc}
    gs = [h.real(f"g{i}", 0.1, 3.0) for i in range(2)]
    g = h.arr(gs)
    top, ref = d1, (lambda t: (oa + ob * t ** 2) / (1 + oc * (ca + cb * t)))
    if depth == 3:
        ta = h.real("t_a", 0.5, 2)
        d2 = DF(outer2, inner_of_x=d1)
        d2.parameters = {"a": ta}
        inner_ref = ref
        top, ref = d2, (lambda t: ta + 2 * inner_ref(t))
    h.reach()
    got = top(g)
    for j in range(2):
        h.close(got[j], ref(gs[j]), "chained-evaluated-at-same-g")
        h.close(top(gs[j]), ref(gs[j]), "chained-scalar")
    # history: the same conditioning array object is refilled in place, then the inner function gets new
    # parameters by hand - every evaluation uses the current values (no stale intermediate results)
    g2 = [h.real(f"h{i}", 0.1, 3.0) for i in range(2)]
    g[0], g[1] = g2[0], g2[1]
    got2 = top(g)
    for j in range(2):
        h.close(got2[j], ref(g2[j]), "chained-after-refilling-the-same-array-in-place")
    ca_old, cb_old = ca, cb
    ca, cb = h.real("base_a2", 0.5, 2), h.real("base_b2", 0.1, 1)
    d0.parameters = {"a": ca, "b": cb}
    got3 = top(g)
    for j in range(2):
        h.close(got3[j], ref(g2[j]), "chained-after-new-inner-parameters")
    h.close(top(g2[0]), ref(g2[0]), "chained-scalar-after-new-inner-parameters")
    gs = g2
    # used as a distribution parameter
    fam = FAMILIES["ExpWeibull"]
    CD = shim.mod("distributions").ConditionalDistribution
    cond = CD(fam.make(f_delta=2), {"alpha": top, "beta": d0})
    x = h.real("x", 0.2, 6)
    th = {"alpha": ref(gs[0]), "beta": ca + cb * gs[0], "delta": 2}
    h.close(cond.cdf(x, gs[0]), expected(h, fam, "cdf", x, th), "chained-in-conditional")


def h_defaults(h):
    """an unfitted dependence function uses the defaults of its callable (documented: the default value, or 1 where the
    callable declares none) - for every mix of parameters with and without defaults"""
    DF = shim.mod("dependencies").DependenceFunction
    CD = shim.mod("distributions").ConditionalDistribution
    kind = h.cfg["kind"]

    def none_(x, a, b, c):
        return a + b * x + c * x * x

    def all_(x, a=0.75, b=0.25, c=0.125):
        return a + b * x + c * x * x

    def trailing(x, a, b, c=0.5):
        return a + b * x + c * x * x

    def trailing2(x, a, b=0.0, c=2.5):
        return a + b * x + c * x * x

    f, want = {"none": (none_, [1, 1, 1]), "all": (all_, [0.75, 0.25, 0.125]), "trailing": (trailing, [1, 1, 0.5]),
               "trailing2": (trailing2, [1, 0.0, 2.5])}[kind]
    d = DF(f)
    h.reach()
    h.check(list(d.parameters) == ["a", "b", "c"], "parameters-in-signature-order", str(list(d.parameters)))
    h.close([d.parameters[k] for k in "abc"], want, "default-or-one")
    gs = [h.real(f"g{i}", 0.1, 2.0) for i in range(2)]
    ref = lambda t: want[0] + want[1] * t + want[2] * t * t
    got = d(h.arr(gs))
    for j in range(2):
        h.close(got[j], ref(gs[j]), "unfitted-function-evaluates-with-its-defaults")
        h.close(d(gs[j]), ref(gs[j]), "unfitted-function-evaluates-with-its-defaults")
    fam = FAMILIES["ExpWeibull"]
    cond = CD(fam.make(f_beta=1.5, f_delta=2.0), {"alpha": d})
    x = h.real("x", 0.2, 6)
    th = {"alpha": ref(gs[0]), "beta": 1.5, "delta": 2.0}
    h.close(cond.cdf(x, gs[0]), expected(h, fam, "cdf", x, th), "defaults-in-conditional")


def obligations(tier):
    for kind in ("none", "all", "trailing", "trailing2"):   # documented form func(x, *args): positional parameters
        yield ("defaults", h_defaults, {"kind": kind}, {})
    fams = SHIPPED if tier == "quick" else SHIPPED + ["ScipyWeibullMin", "ScipyGamma"]
    givens = ["scalar", "vec2", "int", "intvec"] if tier == "quick" else ["scalar", "vec2", "vec3", "int", "intvec"]
    shapes = ["linear", "exp3"] if tier == "quick" else ["linear", "exp3", "power3"]
    for fname in fams:
        fam = FAMILIES[fname]
        for dep in subsets(fam.params):
            if fname == "LogNormalNormFit" and len(dep) == 1:
                continue  # the family rejects partial explicit parameters by design (see C05)
            for method in ["pdf", "cdf", "icdf", "draw_sample"]:
                for gk in givens:
                    for shape in ((shapes + ["const"]) if dep else ["linear"]):
                        if shape not in ("linear", "const") and (method == "draw_sample" or gk == "vec3"):
                            continue
                        if shape == "const" and tier == "quick" and gk not in ("vec2", "intvec"):
                            continue
                        yield ("conditional", h_conditional,
                               {"family": fname, "dependent": "+".join(dep), "method": method, "given": gk,
                                "shape": shape}, {})
    for depth in ((2,) if tier == "quick" else (2, 3)):
        for binding in ("kwarg", "kwargs-dict"):
            yield ("chained", h_chained, {"depth": depth, "binding": binding}, {})
