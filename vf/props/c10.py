"""C10 - interval slicing partitions the data: each observation in exactly one interval (IEEE-754 doubles)."""

from __future__ import annotations

import math
import time

import numpy as np
import z3

from .. import sym, shim, fp, npx, harness
from ..fp import SF, F64

PROPERTY = "C10"
LEVEL_TEXT = ("FP mode: the real _slice methods are executed on symbolic IEEE-754 doubles (z3 FloatingPoint terms, RNE; "
              "np.arange / np.linspace modelled operation by operation and validated against numpy), the partition "
              "property is one QF_FP query over ALL doubles in the stated ranges per (slicer configuration, number of "
              "intervals), decided by cvc5 1.4 / z3 4.8.12; a model is replayed on the real slicer. Rank logic of "
              "PointsPerIntervalSlicer, dropping and references: Real mode, all orderings forked.")
FUNCTIONS = [
    "intervals.WidthOfIntervalSlicer._slice", "intervals.NumberOfIntervalsSlicer._slice",
    "intervals.PointsPerIntervalSlicer._slice", "intervals.IntervalSlicer.slice_",
    "intervals.IntervalSlicer._drop_too_small_intervals",
]
BOUNDS = {
    "quick": "WidthOfIntervalSlicer: observation x, data maximum and width symbolic doubles (x in [0, max], max <= 100, "
             "width in [0.01, 10]), 1..6 intervals, both right_open values, value_range given / derived; "
             "NumberOfIntervalsSlicer: x and both range ends symbolic doubles in [0, 100], n_intervals 1..6, both "
             "include_max values; PointsPerIntervalSlicer: vectors of 3-4 symbolic reals in arbitrary order, all "
             "n_points / last_full; dropping / references / min_n_intervals on 4 values",
    "thorough": "up to 10 (width slicer) / 9 (number slicer) intervals with a 900 s cap per FP query (more intervals were not decided within the cap on a loaded machine and are left outside), vectors of 5 values",
}
OUTSIDE = [
    "more intervals than the bound (one query per interval count); widths outside [0.01, 10]; data above 100",
    "vectors longer than 5 for the rank logic of PointsPerIntervalSlicer",
]
ASSUMPTIONS = [
    "FP models of np.arange / np.linspace (vf/fp.py), validated against numpy 2.0 on 20000 random inputs each by the "
    "self-test; IEEE-754 semantics of z3 / cvc5 FloatingPoint theory",
]


class J:
    """judgement helpers that build a z3 term (symbolic) or a bool (concrete replay)"""

    def __init__(self, symbolic):
        self.s = symbolic

    def b(self, v):
        if self.s:
            return sym.bterm(v) if not z3.is_expr(v) else v
        return bool(v)

    def AND(self, *a):
        return z3.And(*[self.b(x) for x in a]) if self.s else all(self.b(x) for x in a)

    def OR(self, *a):
        a = list(a)
        if not a:
            return z3.BoolVal(False) if self.s else False
        return z3.Or(*[self.b(x) for x in a]) if self.s else any(self.b(x) for x in a)

    def NOT(self, a):
        return z3.Not(self.b(a)) if self.s else not self.b(a)

    def count_is_not(self, flags, n):
        if self.s:
            return z3.Sum(*[z3.If(self.b(f), 1, 0) for f in flags]) != n
        return sum(1 for f in flags if self.b(f)) != n


def _identity_drop(a, b, c):
    return a, b, c


def _judge_partition(j, x, masks_x, bounds, closed_right, covered, last_closed=False):
    """violation formula: x covered but not in exactly one interval / member outside its reported boundaries /
    overlapping boundaries"""
    v = [j.AND(covered, j.count_is_not(masks_x, 1))]
    K = len(bounds)
    for k, (lo, hi) in enumerate(bounds):
        if closed_right:
            inside = j.AND(lo < x, x <= hi)
        elif last_closed and k == K - 1:
            inside = j.AND(lo <= x, x <= hi)
        else:
            inside = j.AND(lo <= x, x < hi)
        v.append(j.AND(masks_x[k], j.NOT(inside)))
    for k in range(K - 1):
        v.append(bounds[k][1] > bounds[k + 1][0])
    return j.OR(*v)


def width_case(symbolic, cfg, vals):
    """runs the real WidthOfIntervalSlicer._slice; returns the violation (term or bool)"""
    I = shim.mod("intervals")
    x, dmax, w = vals["x"], vals["dmax"], vals["w"]
    kw = {}
    if cfg["value_range"] == "given":
        kw["value_range"] = (0, dmax)
    elif cfg["value_range"] == "upper_only":
        kw["value_range"] = (None, dmax)
    s = I.WidthOfIntervalSlicer(w, right_open=cfg["right_open"], min_n_points=0, min_n_intervals=1, **kw)
    s._drop_too_small_intervals = _identity_drop      # the property speaks about the state before dropping
    if symbolic:
        data = np.array([x, dmax], dtype=object).view(sym.SymArray)
        fp.HINTS["arange_len"] = [cfg["K"]]
    else:
        data = np.array([x, dmax])
    masks, refs, bounds = s._slice(data)
    j = J(symbolic)
    if not symbolic and len(masks) != cfg["K"]:
        return None   # replay outside this obligation's interval count
    mx = [m[0] for m in masks]
    # the documented value range is [0, max(data)] (resp. the given range): every observation in it is covered -
    # the maximum included - except the lower end 0 itself when intervals are left-open
    covered = j.AND(0.0 < x, x <= dmax) if not cfg["right_open"] else j.AND(0.0 <= x, x <= dmax)
    return _judge_partition(j, x, mx, bounds, not cfg["right_open"], covered)


def number_case(symbolic, cfg, vals):
    I = shim.mod("intervals")
    x, v0, v1 = vals["x"], vals["v0"], vals["v1"]
    s = I.NumberOfIntervalsSlicer(cfg["K"], include_max=cfg["include_max"], value_range=(v0, v1), min_n_points=0,
                                  min_n_intervals=1)
    s._drop_too_small_intervals = _identity_drop
    data = np.array([x], dtype=object).view(sym.SymArray) if symbolic else np.array([x])
    masks, refs, bounds = s._slice(data)
    j = J(symbolic)
    mx = [m[0] for m in masks]
    covered = j.AND(v0 <= x, x <= v1) if cfg["include_max"] else j.AND(v0 <= x, x < v1)
    viol = _judge_partition(j, x, mx, bounds, False, covered, last_closed=cfg["include_max"])
    if cfg["include_max"]:
        # the maximum itself belongs to the last interval
        viol = j.OR(viol, j.AND(x == v1, j.NOT(mx[-1])))
    return viol


CASES = {"width": (width_case, ["x", "dmax", "w"]), "number": (number_case, ["x", "v0", "v1"])}


def fp_runner(pid, hname, fn, cfg, seed=0, timeout_s=150, **_):
    """custom runner: one QF_FP query per obligation, external portfolio, concrete replay of a model"""
    t0 = time.time()
    case, names = CASES[cfg["slicer"]]
    res = {"property": pid, "harness": hname, "cfg": harness.cfg_key(cfg), "status": "proved", "labels": {},
           "paths": 1, "decisions": 0, "forks": 0, "notes": [], "validation": None, "kernels": [], "axioms": 0,
           "domain": ["IEEE-754 binary64, round to nearest even"], "queries": {}, "solver_s": 0.0}
    E = sym.Engine()
    sym.set_engine(E)
    E.begin_path()
    try:
        vals = {n: SF(z3.FP(n, F64)) for n in names}
        c = lambda v: z3.FPVal(v, F64)
        if cfg["slicer"] == "width":
            x, dmax, w = vals["x"].t, vals["dmax"].t, vals["w"].t
            E.assume(z3.And(z3.fpGEQ(x, c(0.0)), z3.fpLEQ(x, dmax), z3.fpLEQ(dmax, c(100.0)),
                            z3.fpGEQ(w, c(0.01)), z3.fpLEQ(w, c(10.0))))
        else:
            x, v0, v1 = vals["x"].t, vals["v0"].t, vals["v1"].t
            E.assume(z3.And(z3.fpGEQ(v0, c(0.0)), z3.fpLEQ(v1, c(100.0)), z3.fpGEQ(x, v0), z3.fpLEQ(x, v1),
                            z3.fpGEQ(z3.fpSub(fp.RNE, v1, v0), c(0.01))))
        with shim.patched():
            viol = case(True, cfg, vals)
        assertions = list(E.solver.assertions())
        # reachability witness: the preconditions (incl. the assumed interval count) are satisfiable
        r0, m0, who0, dt0 = fp.solve_fp(assertions, names, timeout_s=60)
        res["queries"][f"witness_{r0}"] = 1
        res["solver_s"] += dt0
        if r0 == "unsat":
            res["status"] = "vacuous"
            return res
        r, m, who, dt = fp.solve_fp(assertions + [viol], names, timeout_s=timeout_s)
        res["solver_s"] += dt
        res["queries"][r] = res["queries"].get(r, 0) + 1
        res["labels"]["partition"] = {("proved" if r == "unsat" else r): 1}
        res["notes"].append(f"decided by {who} in {dt:.1f}s")
        if r == "unknown":
            res["status"] = "inconclusive"
        elif r == "sat":
            sym.set_engine(None)
            ok = None
            try:
                ok = case(False, cfg, m)
            except Exception as e:
                ok = None
                res["notes"].append(f"replay raised {type(e).__name__}: {e}")
            if ok:
                res["status"] = "violated"
                res["violation"] = {"label": "each-observation-in-exactly-one-interval", "inputs": m,
                                    "detail": f"model of {who} reproduced on the real slicer"}
            else:
                res["status"] = "unconfirmed"
                res["violation"] = {"label": "partition", "detail": f"model {m} did not reproduce ({ok})"}
    except HarnessErrorTypes as e:
        res["status"] = "harness_error"
        res["error"] = f"{type(e).__name__}: {e}"
    finally:
        try:
            E.end_path()
        except Exception:
            pass
        sym.set_engine(None)
        fp.HINTS["arange_len"] = []
    res["solver_s"] = round(res["solver_s"], 3)
    res["wall_s"] = round(time.time() - t0, 3)
    return res


HarnessErrorTypes = (sym.HarnessError, z3.Z3Exception, TypeError, AttributeError, IndexError, ValueError)


def fp_replayer(fn, cfg, inputs):
    case, names = CASES[cfg["slicer"]]
    ok = case(False, cfg, inputs)
    return (not ok), {"inputs": inputs, "violation_reproduced": bool(ok)}


# ------------------------------------------------------------------------------------------------ Real-mode harnesses


def h_points_per_interval(h):
    """masks are aligned with input positions; chunk sizes; midpoint boundaries; references"""
    I = shim.mod("intervals")
    n, npts, last_full = h.cfg["n"], h.cfg["n_points"], h.cfg["last_full"]
    vals = [h.real(f"d{i}", 0.0, 10.0) for i in range(n)]
    h.distinct(vals, 0.01)
    data = h.arr(vals)
    s = I.PointsPerIntervalSlicer(npts, last_full=last_full, min_n_points=1, min_n_intervals=1,
                                  reference=(lambda a: a.sum() / len(a)))
    masks, refs, bounds = s.slice_(data)
    h.reach()
    # reference: rank of every observation (number of smaller ones), chunks by rank
    if h.sym:
        rank = [sum(1 for jx in range(n) if jx != i and bool(vals[jx] < vals[i])) for i in range(n)]
    else:
        rank = [sum(1 for jx in range(n) if vals[jx] < vals[i]) for i in range(n)]
    rem = n % npts
    sizes = []
    if rem and last_full:
        sizes = [rem] + [npts] * (n // npts)
    elif rem:
        sizes = [npts] * (n // npts) + [rem]
    else:
        sizes = [npts] * (n // npts)
    edges = np.cumsum([0] + sizes)
    K = len(sizes)
    h.check(len(masks) == K, "number-of-intervals", f"{len(masks)} vs {K}")
    for k in range(min(K, len(masks))):
        want = [edges[k] <= rank[i] < edges[k + 1] for i in range(n)]
        got = [bool(masks[k][i]) for i in range(n)]
        h.check(got == want, "mask-aligned-with-input-positions", f"interval {k}: mask {got}, members by rank {want}")
        members = [vals[i] for i in range(n) if want[i]]
        h.close(refs[k], sum(members) / len(members), "reference-is-callable-of-own-members")
    for i in range(n):
        h.check(sum(1 for k in range(len(masks)) if bool(masks[k][i])) == 1, "each-observation-in-exactly-one-interval")
    srt = sorted(range(n), key=lambda i: rank[i])
    for k in range(min(K, len(bounds))):
        lo_m, hi_m = vals[srt[edges[k]]], vals[srt[edges[k + 1] - 1]]
        lo = lo_m if k == 0 else (vals[srt[edges[k] - 1]] + lo_m) / 2
        hi = hi_m if k == K - 1 else (hi_m + vals[srt[edges[k + 1]]]) / 2
        h.close(bounds[k][0], lo, "lower-boundary-is-midpoint-to-previous-interval")
        h.close(bounds[k][1], hi, "upper-boundary-is-midpoint-to-next-interval")


def h_points_ties(h):
    """PointsPerIntervalSlicer with tied observations (which of two equal values goes where is free): still every
    observation in exactly one interval, the documented chunk sizes, chunks ordered by value, own-member references"""
    I = shim.mod("intervals")
    n, npts, last_full = h.cfg["n"], h.cfg["n_points"], h.cfg["last_full"]
    base = [h.real(f"d{i}", 0.0, 10.0) for i in range(n)]
    h.distinct(base[: n - len(h.cfg["ties"])], 0.01)
    vals = list(base)
    for k, (dst, src) in enumerate(h.cfg["ties"]):      # vals[dst] is the same value as vals[src]
        vals[dst] = vals[src]
    data = h.arr(vals)
    s = I.PointsPerIntervalSlicer(npts, last_full=last_full, min_n_points=1, min_n_intervals=1,
                                  reference=(lambda a: a.sum() / len(a)))
    masks, refs, bounds = s.slice_(data)
    h.reach()
    rem = n % npts
    sizes = ([rem] + [npts] * (n // npts)) if (rem and last_full) else ([npts] * (n // npts) + ([rem] if rem else []))
    h.check(len(masks) == len(sizes), "number-of-intervals", f"{len(masks)} vs {len(sizes)}")
    member = [[bool(masks[k][i]) for i in range(n)] for k in range(len(masks))]
    for i in range(n):
        h.check(sum(1 for k in range(len(masks)) if member[k][i]) == 1, "each-observation-in-exactly-one-interval",
                f"observation {i} is in {sum(1 for k in range(len(masks)) if member[k][i])} intervals")
    for k in range(min(len(sizes), len(masks))):
        h.check(sum(member[k]) == sizes[k], "interval-sizes-as-documented", f"interval {k}: {sum(member[k])} vs {sizes[k]}")
        mem = [vals[i] for i in range(n) if member[k][i]]
        if mem:
            h.close(refs[k], sum(mem) / len(mem), "reference-is-callable-of-own-members")
        if k + 1 < len(masks):
            nxt = [vals[i] for i in range(n) if member[k + 1][i]]
            for a_ in mem:
                for b_ in nxt:
                    h.check(a_ <= b_, "intervals-ordered-by-value")


def h_drop_and_references(h):
    """exactly the intervals with fewer than min_n_points members are dropped (order kept); references; RuntimeError"""
    I = shim.mod("intervals")
    kind, ref, mnp, mni = h.cfg["slicer"], h.cfg["reference"], h.cfg["min_n_points"], h.cfg["min_n_intervals"]
    # concrete interval layout (width 1 / 4 intervals on [0,4]), symbolic observations inside known cells
    cells = h.cfg["cells"]                       # cell index of every observation; 4 = exactly the upper limit 4.0
    im = h.cfg.get("include_max", True)
    vals = [(c + h.real(f"u{i}", 0.05, 0.95)) if c < 4 else 4.0 for i, c in enumerate(cells)]
    data = h.arr(vals)
    # an observation at the upper limit belongs to the last interval iff include_max, otherwise to none (not counted)
    cells = [(3 if im else -1) if c == 4 else c for c in cells]
    refarg = {"center": "center", "left": "LEFT", "right": "Right", "callable": (lambda a: a.sum() / len(a))}[ref]
    if kind == "width":
        s = I.WidthOfIntervalSlicer(1.0, reference=refarg, value_range=(0, 3.5), min_n_points=mnp, min_n_intervals=mni)
    else:
        s = I.NumberOfIntervalsSlicer(4, reference=refarg, value_range=(0, 4.0), min_n_points=mnp, min_n_intervals=mni,
                                      include_max=im)
    counts = [sum(1 for c in cells if c == k) for k in range(4)]
    keep = [k for k in range(4) if counts[k] >= mnp]
    if len(keep) < mni:
        h.raises(lambda: s.slice_(data), (RuntimeError,), "too-few-intervals-rejected")
        return
    masks, refs, bounds = s.slice_(data)
    h.reach()
    h.check(len(masks) == len(keep), "exactly-the-small-intervals-dropped", f"{len(masks)} kept, expected {keep}")
    for pos, k in enumerate(keep[: len(masks)]):
        got = [bool(masks[pos][i]) for i in range(len(cells))]
        h.check(got == [c == k for c in cells], "kept-intervals-in-order-with-their-members")
        h.close(bounds[pos][0], float(k), "reported-lower-boundary")
        h.close(bounds[pos][1], float(k + 1), "reported-upper-boundary")
        members = [vals[i] for i, c in enumerate(cells) if c == k]
        want = {"center": k + 0.5, "left": float(k), "right": k + 1.0,
                "callable": sum(members) / len(members)}[ref]
        h.close(refs[pos], want, "reference-value-as-configured")


def h_reuse(h):
    """history: a slicer that has already sliced one vector slices the next one like a fresh slicer would"""
    I = shim.mod("intervals")
    kind = h.cfg["slicer"]

    def make():
        if kind == "width":
            return I.WidthOfIntervalSlicer(1.0, min_n_points=1, min_n_intervals=1)
        if kind == "number":
            return I.NumberOfIntervalsSlicer(2, min_n_points=1, min_n_intervals=1)
        return I.PointsPerIntervalSlicer(2, min_n_points=1, min_n_intervals=1, reference=(lambda a: a.sum() / len(a)))

    n = h.cfg["n"]
    first = h.reals("a", n, 0.0, 3.0)
    second = h.reals("b", n, 0.0, 6.0)
    # both vectors ascending (the order of the observations is the subject of the other harnesses; here it only
    # multiplies paths): what matters is that the two vectors have different ranges
    for v in (first, second):
        for i in range(n - 1):
            h.assume(v[i + 1] - v[i] >= 0.011)
    used = make()
    used.slice_(first)
    got = used.slice_(second)
    want = make().slice_(second)
    h.reach()
    h.check(len(got[0]) == len(want[0]), "same-number-of-intervals-as-a-fresh-slicer", f"{len(got[0])} vs {len(want[0])}")
    for k in range(min(len(got[0]), len(want[0]))):
        h.check([bool(v) for v in got[0][k]] == [bool(v) for v in want[0][k]], "same-masks-as-a-fresh-slicer")
        h.close(got[1][k], want[1][k], "same-references-as-a-fresh-slicer")
        h.close(list(got[2][k]), list(want[2][k]), "same-boundaries-as-a-fresh-slicer")


def obligations(tier):
    for kind in ("width", "number", "points"):
        yield ("reuse", h_reuse, {"slicer": kind, "n": 3 if tier == "quick" else 4}, {"max_paths": 20000})
    # FP queries grow ~1.6x per interval (number slicer, loaded machine: K=6 52 s, K=7 93 s, K=8 147 s): the thorough
    # tier gets a 900 s cap per solver and stops at 10 (width) / 9 (number) intervals
    fpo = {"runner": fp_runner, "replayer": fp_replayer}
    if tier != "quick":
        fpo["timeout_s"] = 900
    for K in (range(1, 7) if tier == "quick" else range(1, 11)):
        for ro in (True, False):
            for vr in (("none", "given") if tier == "quick" else ("none", "given", "upper_only")):
                if tier == "quick" and not ro and vr == "given":
                    continue
                yield ("width_fp", None, {"slicer": "width", "K": K, "right_open": ro, "value_range": vr}, dict(fpo))
    for K in (range(1, 7) if tier == "quick" else range(1, 10)):
        for im in (True, False):
            yield ("number_fp", None, {"slicer": "number", "K": K, "include_max": im}, dict(fpo))
    for n in ((3, 4) if tier == "quick" else (3, 4, 5)):
        for npts in range(1, n + 1):
            for lf in (True, False):
                yield ("points_per_interval", h_points_per_interval, {"n": n, "n_points": npts, "last_full": lf},
                       {"max_paths": 5000})
    for n, npts, ties in ((4, 2, [(3, 0)]), (4, 2, [(3, 1)]), (5, 2, [(4, 2)]), (5, 2, [(4, 0), (3, 1)]), (4, 3, [(3, 2)]),
                          (5, 2, [(4, 1), (3, 1)])):
        for lf in (True, False):
            yield ("points_ties", h_points_ties, {"n": n, "n_points": npts, "last_full": lf, "ties": ties},
                   {"max_paths": 5000})
    layouts = [[0, 0, 1, 3], [2, 0, 0, 0], [1, 3, 3, 1], [0, 1, 2, 3]]
    for kind in ("width", "number"):
        for ref in ("center", "left", "right", "callable"):
            for li, cells in enumerate(layouts):
                for mnp, mni in ((1, 1), (2, 1), (2, 2), (1, 3), (3, 2)):
                    if tier == "quick" and (li + mnp + mni) % 2 and ref != "center":
                        continue
                    yield ("drop_and_references", h_drop_and_references,
                           {"slicer": kind, "reference": ref, "cells": cells, "min_n_points": mnp, "min_n_intervals": mni}, {})
    # observations exactly at the upper limit of the number slicer, with and without include_max
    for cells in ([0, 1, 3, 4], [3, 4, 4, 0], [4, 4, 1, 1], [0, 1, 2, 4]):
        for im in (True, False):
            for mnp, mni in ((1, 1), (2, 1), (1, 4), (3, 1)):
                yield ("drop_and_references", h_drop_and_references,
                       {"slicer": "number", "reference": "center", "cells": cells, "min_n_points": mnp,
                        "min_n_intervals": mni, "include_max": im}, {})
