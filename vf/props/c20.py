"""C20 - exported, plotted and loaded data are exactly the computed / stored values."""

from __future__ import annotations

import math
import os
import tempfile

import numpy as np

from .. import sym, shim, stubs, npx, stx
from .families import FAMILIES
from .models import build_model
from .c05 import expected

PROPERTY = "C20"
LEVEL_TEXT = ("bounded symbolic execution of save_contour_coordinates and the plot functions with recording stubs for "
              "np.savetxt / matplotlib Axes / scipy.stats.probplot: decides that the arrays handed to the output layer are "
              "exactly the (symbolic) contour coordinates, samples, design conditions, pdf and dependence-function "
              "values; file round trip and the dataset reader are exercised concretely (third-party formatting/parsing "
              "cannot be encoded)")
FUNCTIONS = [
    "contours.save_contour_coordinates", "plotting.plot_2D_contour", "plotting.plot_dependence_functions",
    "plotting.plot_2D_isodensity", "plotting.plot_marginal_quantiles",
    "plotting.plot_histograms_of_interval_distributions", "plotting.get_default_semantics",
    "utils.read_ec_benchmark_dataset",
]
BOUNDS = {
    "quick": "contours of 3 and 4 symbolic points in 2-D / 3-D; sample of 2 symbolic rows; design_conditions "
             "None/True/False/array; swap_axis both; 9 path spellings; 3x3 isodensity grid; dataset files of 1, 3, 40 rows",
    "thorough": "contours up to 6 points, 5x5 grid, all 7 family rotations for the model-based plots",
}
OUTSIDE = [
    "what numpy's formatter, matplotlib's renderer and pandas' parser do with their arguments (compiled third-party "
    "code): the file round trip and read_ec_benchmark_dataset are checked on concrete files only, not by the solver",
    "styling (colours, labels) of the plots",
]
ASSUMPTIONS = [
    "matplotlib Axes.plot/scatter/contour and np.savetxt draw/write exactly the data they are handed (recording stubs)",
]


class _Contour:
    def __init__(self, coords):
        self.coordinates = coords


def _coords(h, n, nd=2, lo=0.5, hi=9.0):
    rows = [[h.real(f"c{k}_{i}", lo, hi) for i in range(nd)] for k in range(n)]
    return h.arr(rows), rows


PATHS = ["out", "out.txt", "out.csv", "res.d/out", "res.d/out.dat", "a.b.c", ".hidden", "dir/.hidden", "x."]


def h_save(h):
    C = shim.mod("contours")
    n, nd = h.cfg["n"], h.cfg["n_dim"]
    coords, rows = _coords(h, n, nd)
    contour = _Contour(coords)
    path = h.cfg["path"]
    sem = None
    if h.cfg["semantics"]:
        sem = {"names": [f"Name {i}" for i in range(nd)], "symbols": [f"S_{i}" for i in range(nd)],
               "units": [f"u{i}" for i in range(nd)]}
    rec = []

    def savetxt(fname, X, fmt="%.18e", delimiter=" ", newline="\n", header="", footer="", comments="# ", **kw):
        rec.append(dict(fname=fname, X=X, fmt=fmt, delimiter=delimiter, header=header, comments=comments,
                        footer=footer, newline=newline))

    if h.sym:
        npx.HOOKS["savetxt"] = savetxt
        C.save_contour_coordinates(contour, path, semantics=sem)
    else:
        with stubs.patch_attr(np, "savetxt", savetxt):
            C.save_contour_coordinates(contour, path, semantics=sem)
    h.reach()
    h.check(len(rec) == 1, "written-once")
    r = rec[0]
    want = path if os.path.splitext(path)[1] else path + ".txt"
    h.check(r["fname"] == want, "txt-appended-iff-no-extension", f"{r['fname']!r} vs {want!r}")
    h.check(np.shape(r["X"]) == (n, nd), "one-row-per-point")
    h.close(r["X"], coords, "rows-are-the-coordinates-in-order")
    h.check(r["fmt"] == "%1.6f" and r["delimiter"] == ";" and r["comments"] == "" and r["footer"] == ""
            and r["newline"] == "\n", "documented-format", str({k: r[k] for k in ("fmt", "delimiter", "comments")}))
    names = sem["names"] if sem else [f"Variable {i + 1}" for i in range(nd)]
    units = sem["units"] if sem else ["arb. unit"] * nd
    h.check(r["header"] == ";".join(f"{names[i]} ({units[i]})" for i in range(nd)), "header-from-semantics", r["header"])
    if not h.sym:
        # concrete round trip through the real np.savetxt: parsed values equal the coordinates to 6 decimals
        with tempfile.TemporaryDirectory(dir="/var/tmp") as td:
            p = os.path.join(td, os.path.basename(path) or "f")
            C.save_contour_coordinates(contour, p, semantics=sem)
            fn = p if os.path.splitext(p)[1] else p + ".txt"
            lines = open(fn).read().splitlines()
            h.check(len(lines) == n + 1, "file-has-header-plus-one-line-per-point", f"{len(lines)} lines")
            h.check(lines[0] == r["header"], "file-header")
            vals = np.array([[float(v) for v in ln.split(";")] for ln in lines[1:]])
            h.check(bool(np.all(np.abs(vals - np.asarray(coords, dtype=float)) <= 5.0000001e-7)), "file-values-to-6-decimals")


def h_plot_contour(h):
    P = shim.mod("plotting")
    n = h.cfg["n"]
    dc_kind, swap = h.cfg["dc"], h.cfg["swap"]
    xi, yi = (1, 0) if swap else (0, 1)
    ax = stubs.RecAxes()
    sample = None
    if dc_kind == "true":
        # design conditions are computed from the contour: use a concrete convex polygon (their values are C17's subject)
        ang = np.linspace(0, 2 * np.pi, n, endpoint=False) + 0.3
        base = np.c_[3 + 2 * np.cos(ang), 5 + 1.5 * np.sin(ang)]
        s = h.real("scale", 0.5, 2.0)
        coords = h.arr([[base[k, 0] * 1.0, base[k, 1] * 1.0] for k in range(n)])
        rows = [[base[k, 0], base[k, 1]] for k in range(n)]
        dc = True
    else:
        coords, rows = _coords(h, n)
        if h.cfg["sample"]:
            srows = [[h.real(f"s{k}_{i}", 0.0, 9.0) for i in range(2)] for k in range(2)]
            sample = h.arr(srows) if h.cfg["sample"] == "array" else [list(r) for r in srows]
        if dc_kind == "array":
            drows = [[h.real(f"d{k}_{i}", 0.0, 9.0) for i in range(2)] for k in range(2)]
            dc = h.arr(drows)
        elif dc_kind == "list":
            drows = [[h.real(f"d{k}_{i}", 0.0, 9.0) for i in range(2)] for k in range(2)]
            dc = np.asarray(drows) if not h.sym else h.arr(drows)
        else:
            dc = {"none": None, "false": False}[dc_kind]
    contour = _Contour(coords)
    ret = P.plot_2D_contour(contour, sample=sample, design_conditions=dc, swap_axis=swap, ax=ax)
    h.reach()
    plots = ax.of("plot")
    h.check(len(plots) == 1, "one-polyline")
    px, py = plots[0][1][0], plots[0][1][1]
    want_x = [rows[k][xi] for k in range(n)] + [rows[0][xi]]
    want_y = [rows[k][yi] for k in range(n)] + [rows[0][yi]]
    h.check(len(px) == n + 1 and len(py) == n + 1, "closed-polyline-has-n-plus-one-points", f"{len(px)}")
    h.close(list(px), want_x, "polyline-x-is-contour-in-order-first-point-repeated")
    h.close(list(py), want_y, "polyline-y-is-contour-in-order-first-point-repeated")
    scat = ax.of("scatter")
    k = 0
    if dc_kind in ("array", "list"):
        h.check(len(scat) >= 1, "design-conditions-drawn")
        h.close(scat[0][1][0], [drows[j][0] for j in range(2)], "design-conditions-as-supplied")
        h.close(scat[0][1][1], [drows[j][1] for j in range(2)], "design-conditions-as-supplied")
        k = 1
        h.check(isinstance(ret, tuple) and ret[0] is ax, "returns-axes-and-design-conditions")
    elif dc_kind == "true":
        U = shim.mod("utils")
        want = U.calculate_design_conditions(contour, swap_axis=swap)
        h.check(len(scat) >= 1, "design-conditions-drawn")
        h.close(scat[0][1][0], want[:, 0], "default-design-conditions-drawn")
        h.close(scat[0][1][1], want[:, 1], "default-design-conditions-drawn")
        k = 1
    else:
        h.check(len(scat) == (1 if sample is not None else 0), "no-design-conditions-drawn")
    if sample is not None:
        h.check(len(scat) == k + 1, "sample-drawn")
        h.close(scat[k][1][0], [srows[j][xi] for j in range(2)], "sample-x-as-supplied")
        h.close(scat[k][1][1], [srows[j][yi] for j in range(2)], "sample-y-as-supplied")


def h_plot_real_contour(h):
    """contours exactly as the contour classes produce them (their coordinate containers included), through
    plot_2D_contour and save_contour_coordinates; concrete sample (the search loops are C03/C04's subject)"""
    import os
    import tempfile
    import warnings
    from .c04 import _Model
    C, P = shim.mod("contours"), shim.mod("plotting")
    rng = np.random.default_rng(h.cfg["seed"])
    sample = np.c_[rng.weibull(1.5, 400) * 2.0 + 0.2, rng.lognormal(1.0, 0.3, 400)]
    model = _Model(float(np.quantile(sample[:, 0], 0.9)), float(np.quantile(sample[:, 1], 0.9)))
    cls = getattr(C, h.cfg["contour"])
    with warnings.catch_warnings():
        warnings.simplefilter("ignore")
        c = cls(model, 0.1, sample=sample, deg_step=h.cfg["deg_step"])
    h.reach()
    pts = [(float(np.ravel(r[0])[0]), float(np.ravel(r[1])[0])) for r in c.coordinates]
    n = len(pts)
    swap = h.cfg["swap"]
    xi, yi = (1, 0) if swap else (0, 1)
    ax = stubs.RecAxes()
    P.plot_2D_contour(c, sample=sample, swap_axis=swap, ax=ax)
    plots = ax.of("plot")
    h.check(len(plots) == 1, "one-polyline")
    px, py = plots[0][1][0], plots[0][1][1]
    h.check(len(px) == n + 1 and len(py) == n + 1, "closed-polyline-has-n-plus-one-points", f"{len(px)} for {n} points")
    h.close([float(np.ravel(v)[0]) for v in px], [p_[xi] for p_ in pts] + [pts[0][xi]], "polyline-x-is-contour-in-order-first-point-repeated")
    h.close([float(np.ravel(v)[0]) for v in py], [p_[yi] for p_ in pts] + [pts[0][yi]], "polyline-y-is-contour-in-order-first-point-repeated")
    scat = ax.of("scatter")
    h.check(len(scat) == 1, "sample-drawn")
    h.close(scat[0][1][0], sample[:, xi], "sample-x-as-supplied")
    h.close(scat[0][1][1], sample[:, yi], "sample-y-as-supplied")
    if h.sym:
        return
    with tempfile.TemporaryDirectory(dir="/var/tmp") as tmp:
        path = os.path.join(tmp, "c")
        C.save_contour_coordinates(c, path)
        lines = open(path + ".txt").read().splitlines()
    h.check(len(lines) == n + 1, "one-row-per-contour-point", f"{len(lines) - 1} rows for {n} points")
    for k in range(min(n, len(lines) - 1)):
        vals = [float(v) for v in lines[k + 1].split(";")]
        h.check(len(vals) == 2 and abs(vals[0] - pts[k][0]) <= 5.1e-7 and abs(vals[1] - pts[k][1]) <= 5.1e-7,
                "saved-row-is-the-contour-point-to-6-decimals", f"row {k}: {lines[k + 1]} vs {pts[k]}")


def h_plot_dependence(h):
    P = shim.mod("plotting")
    model, dims = build_model(h, (None, 0), rot=h.cfg["rot"])
    fitted = h.cfg["fitted"]
    cd = model.distributions[1]
    dep_names = list(cd.conditional_parameters)
    if fitted:
        cv = [h.real(f"cv{k}", 0.5, 4.0) for k in range(3)]
        cd.conditioning_values = h.arr(cv)
        cd.parameters_per_interval = [{p: h.real(f"est{k}_{p}", 0.1, 3.0) for p in dims[1].fam.params} for k in range(3)]
    axes = [stubs.RecAxes(f"ax{k}") for k in range(len(dep_names))]
    P.plot_dependence_functions(model, axes=axes)
    h.reach()
    for k, p in enumerate(dep_names):
        ax = axes[k]
        pl = ax.of("plot")
        h.check(len(pl) == 1, "one-curve-per-dependence-function")
        xs, ys = pl[0][1][0], pl[0][1][1]
        a, b = dims[1].dep_coef[p]
        if fitted:
            m = npx.amax(h.arr(cv)) if h.sym else max(cv)
            for j in (0, 7, 49):
                h.close(xs[j], m * (j / 49.0), "grid-spans-zero-to-max-conditioning-value", rtol=1e-9, approx=True)
        else:
            h.close(list(xs), list(np.linspace(0, 10)), "default-grid")
        for j in (0, 7, 23, 49):
            h.close(ys[j], a + b / (1 + xs[j] * xs[j]), "curve-is-the-dependence-function-value")
        sc = ax.of("scatter")
        if fitted:
            h.check(len(sc) == 1, "interval-estimates-drawn")
            h.close(sc[0][1][0], cv, "estimates-at-conditioning-values")
            h.close(sc[0][1][1], [cd.parameters_per_interval[i][p] for i in range(3)], "per-interval-estimates-unmodified")
        else:
            h.check(len(sc) == 0, "no-estimates-for-unfitted-model")


def h_plot_isodensity(h):
    P = shim.mod("plotting")
    model, dims = build_model(h, (None, 0), rot=h.cfg["rot"])
    swap, g = h.cfg["swap"], h.cfg["grid"]
    srows = [[h.real(f"s{k}_{i}", 0.5, 6.0) for i in range(2)] for k in range(2)]
    sample = h.arr(srows)
    limits = [(0.5, 4.0), (1.0, 7.0)]
    ax = stubs.RecAxes()
    if h.sym:
        P.plot_2D_isodensity(model, sample, swap_axis=swap, limits=limits, levels=[0.01, 0.1], ax=ax, n_grid_steps=g)
    else:
        with stubs.patch_attr(shim.mod("plotting"), "plt", stubs.RecPlt()):
            P.plot_2D_isodensity(model, sample, swap_axis=swap, limits=limits, levels=[0.01, 0.1], ax=ax, n_grid_steps=g)
    h.reach()
    xi, yi = (1, 0) if swap else (0, 1)
    sc = ax.of("scatter")
    h.check(len(sc) == 1, "sample-drawn")
    h.close(sc[0][1][0], [srows[j][xi] for j in range(2)], "sample-x-as-supplied")
    h.close(sc[0][1][1], [srows[j][yi] for j in range(2)], "sample-y-as-supplied")
    ct = ax.of("contour")
    h.check(len(ct) == 1, "one-contour-plot")
    X, Y, Z = ct[0][1][0], ct[0][1][1], ct[0][1][2]
    h.check(np.shape(Z) == (g, g), "density-grid-shape")
    gx = np.linspace(limits[0][0], limits[0][1], g)
    gy = np.linspace(limits[1][0], limits[1][1], g)
    for i in range(g):
        for j in range(g):
            # the cell drawn at plot position (X[i,j], Y[i,j]) shows the model density at (variable0, variable1)
            v0, v1 = (Y[i, j], X[i, j]) if swap else (X[i, j], Y[i, j])
            th0 = dims[0].theta()
            th1 = dims[1].theta(v0)
            ref = expected(h, dims[0].fam, "pdf", v0, th0) * expected(h, dims[1].fam, "pdf", v1, th1)
            h.close(Z[i, j], ref, "drawn-density-is-model-pdf-at-that-point")
    h.check(bool(np.allclose(np.sort(np.unique(np.asarray(sym.concretize(np.asarray(X)) if h.sym else X))),
                             gy if swap else gx)), "grid-spans-limits")


def h_plot_quantiles(h):
    P = shim.mod("plotting")
    model, dims = build_model(h, (None, None), rot=h.cfg["rot"])
    srows = [[h.real(f"s{k}_{i}", 0.5, 6.0) for i in range(2)] for k in range(3)]
    sample = h.arr(srows)
    axes = [stubs.RecAxes("a0"), stubs.RecAxes("a1")]
    rec = []

    def probplot(x, sparams=(), dist="norm", fit=True, plot=None, rvalue=False):
        rec.append((x, dist, fit, plot))

    if h.sym:
        stx.HOOKS["probplot"] = probplot
        P.plot_marginal_quantiles(model, sample, axes=axes)
    else:
        import scipy.stats as sts
        with stubs.patch_attr(sts, "probplot", probplot):
            P.plot_marginal_quantiles(model, sample, axes=axes)
    h.reach()
    h.check(len(rec) == 2, "one-qq-plot-per-dimension")
    for dim in range(2):
        x, dist, fit, plot = rec[dim]
        h.close(x, [srows[k][dim] for k in range(3)], "ordered-values-are-the-sample-column")
        h.check(plot is axes[dim] and fit is False, "drawn-into-own-axes")
        q = h.real(f"q{dim}", 0.05, 0.95)
        h.close(dist.ppf(q), expected(h, dims[dim].fam, "icdf", q, dims[dim].theta()), "theoretical-quantiles-are-the-model-marginal")


def h_plot_histograms(h):
    """per dimension / per interval: the histogram shows that interval's own data and the curve is the pdf of the
    distribution fitted to that interval, unmodified"""
    P = shim.mod("plotting")
    I = shim.mod("intervals")
    vc = shim.virocon()
    DF = shim.mod("dependencies").DependenceFunction
    rng = np.random.default_rng(4)
    sample = np.c_[rng.uniform(0.05, 2.95, size=15), rng.uniform(0.5, 4.0, size=15)]

    def lin(x, a=1.0, b=0.5):
        return a + b * x

    w = FAMILIES["Weibull"]
    th0 = {p: h.real(f"w_{p}", *w.ranges[p]) for p in w.params}
    slicer = I.WidthOfIntervalSlicer(1.0, value_range=(0, 2.5), min_n_points=1, min_n_intervals=1)
    ln = FAMILIES["LogNormal"]
    descs = [{"distribution": w.make(**th0), "intervals": slicer},
             {"distribution": ln.make(), "conditional_on": 0, "parameters": {p: DF(lin) for p in ln.params}}]
    model = vc.GlobalHierarchicalModel(descs)
    masks, refs, bounds = slicer.slice_(sample[:, 0])
    cd = model.distributions[1]
    cd.conditioning_values = np.array(refs)
    cd.data_intervals = [sample[m, 1] for m in masks]
    per = []
    for k in range(len(masks)):
        th = {"mu": h.real(f"mu{k}", -1.0, 2.0), "sigma": h.real(f"sigma{k}", 0.2, 2.0)}
        per.append(th)
    cd.distributions_per_interval = [ln.make(**th) for th in per]
    cd.parameters_per_interval = per
    plt_rec = stubs.RecPlt()
    with stubs.patch_attr(shim.mod("plotting"), "plt", plt_rec):
        figs, axes_list = P.plot_histograms_of_interval_distributions(model, sample)
    h.reach()
    h.check(len(axes_list) == 2, "one-figure-per-dimension")
    ax0 = axes_list[0]
    h.check(len(ax0.of("hist")) == 1 and np.array_equal(np.asarray(ax0.of("hist")[0][1][0], dtype=float), sample[:, 0]),
            "marginal-histogram-shows-its-own-column")
    pl = ax0.of("plot")
    h.check(len(pl) == 1, "one-density-curve")
    xs, ys = pl[0][1][0], pl[0][1][1]
    for j in (0, 13, 49):
        h.close(ys[j], expected(h, w, "pdf", float(xs[j]), th0), "marginal-curve-is-the-model-pdf")
    axs = axes_list[1]
    for k in range(len(masks)):
        a = axs[k]
        h.check(len(a.of("hist")) == 1 and np.array_equal(np.sort(np.asarray(a.of("hist")[0][1][0], dtype=float)),
                                                           np.sort(sample[masks[k], 1])), "interval-histogram-shows-the-intervals-own-data")
        pl = a.of("plot")
        h.check(len(pl) == 1, "one-density-curve-per-interval")
        xs, ys = pl[0][1][0], pl[0][1][1]
        for j in (0, 21, 49):
            h.close(ys[j], expected(h, ln, "pdf", float(xs[j]), per[k]), "interval-curve-is-the-pdf-of-that-intervals-fit")


def h_reader(h):
    """concrete only: read_ec_benchmark_dataset returns every row, in order, with its time stamp as index"""
    U = shim.mod("utils")
    n = h.cfg["rows"]
    rng = np.random.default_rng(n)
    vals = np.round(rng.uniform(0.1, 12, size=(n, 2)), 3)
    import datetime
    t0 = datetime.datetime(1998, 12, 30, 22)
    stamps = [t0 + datetime.timedelta(hours=k) for k in range(n)]
    if h.cfg.get("order") == "unordered" and n > 2:
        # records appended out of order / overlapping deployments: the reader must keep file order
        perm = rng.permutation(n)
        stamps = [stamps[k] for k in perm]
    with tempfile.TemporaryDirectory(dir="/var/tmp") as td:
        p = os.path.join(td, "d.txt")
        with open(p, "w") as f:
            f.write("time (YYYY-MM-DD-HH); significant wave height (m); zero-up-crossing period (s)\n")
            for s, v in zip(stamps, vals):
                f.write(f"{s:%Y-%m-%d-%H}; {v[0]}; {v[1]}\n")
        df = U.read_ec_benchmark_dataset(p)
    h.check(df.shape == (n, 2), "every-row-returned", str(df.shape))
    h.check(bool(np.array_equal(df.values, vals)), "values-in-order")
    h.check([ts.to_pydatetime() for ts in df.index] == stamps, "time-stamp-index")
    h.check(list(df.columns) == ["significant wave height (m)", "zero-up-crossing period (s)"], "column-names")


def obligations(tier):
    ns = (3, 4) if tier == "quick" else (3, 4, 6)
    for path in PATHS:
        for nd in (2, 3):
            for sem in (False, True):
                yield ("save", h_save, {"n": ns[0] if nd == 2 else ns[1], "n_dim": nd, "path": path, "semantics": sem}, {})
    for n in ns:
        for swap in (False, True):
            for dc in ("none", "false", "array", "list", "true"):
                for sample in ((None, "array") if dc != "true" else (None,)):
                    if dc == "true" and n < 4:
                        continue
                    yield ("plot_contour", h_plot_contour, {"n": n, "swap": swap, "dc": dc, "sample": sample}, {})
    for cname in ("AndContour", "OrContour", "DirectSamplingContour"):
        for swap in (False, True):
            for seed, deg in (((1, 10),) if tier == "quick" else ((1, 10), (2, 5), (3, 15))):
                yield ("plot_real_contour", h_plot_real_contour, {"contour": cname, "swap": swap, "seed": seed, "deg_step": deg}, {})
    rots = (0, 2) if tier == "quick" else range(7)
    for rot in rots:
        for fitted in (False, True):
            yield ("plot_dependence", h_plot_dependence, {"rot": rot, "fitted": fitted}, {})
        for swap in (False, True):
            yield ("plot_isodensity", h_plot_isodensity, {"rot": rot, "swap": swap, "grid": 3 if tier == "quick" else 5}, {})
        yield ("plot_quantiles", h_plot_quantiles, {"rot": rot}, {})
    yield ("plot_histograms", h_plot_histograms, {}, {})
    for rows in (1, 3, 40):
        for order in ("chronological", "unordered"):
            yield ("reader", h_reader, {"rows": rows, "order": order}, {})
