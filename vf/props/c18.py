"""C18 - ill-formed model, fit and contour specifications are rejected, not computed."""

from __future__ import annotations

import math
import warnings

import numpy as np

from .. import sym, shim, stubs
from .families import FAMILIES, SHIPPED

PROPERTY = "C18"
LEVEL_TEXT = ("bounded symbolic exploration of the space of (mal)formed specifications: malformation flags and "
              "conditional_on indices are symbolic booleans/integers constrained to 'at most two malformations'; the "
              "solver enumerates every feasible combination (path), the real constructor runs on each, and "
              "accepted <=> well-formed is asserted; NaN/inf evaluation points are symbolic NaN flags")
FUNCTIONS = [
    "jointmodels.GlobalHierarchicalModel.__init__", "jointmodels.GlobalHierarchicalModel._check_dist_descriptions",
    "distributions.ConditionalDistribution.__init__", "jointmodels.GlobalHierarchicalModel._check_and_fill_fit_desc",
    "jointmodels.GlobalHierarchicalModel.fit", "distributions.Distribution.fit",
    "distributions.ExponentiatedWeibullDistribution._fit_lsq", "contours.HighestDensityContour._check_grid",
    "contours.HighestDensityContour._compute", "contours.IFORMContour.__init__",
    "contours.DirectSamplingContour._compute", "contours.AndContour._compute", "contours.OrContour._compute",
    "intervals.IntervalSlicer.__init__", "intervals.IntervalSlicer.slice_",
    "intervals.WidthOfIntervalSlicer._slice", "intervals.NumberOfIntervalsSlicer._slice",
    "jointmodels.GlobalHierarchicalModel.pdf", "jointmodels.MultivariateModel.cdf",
]
BOUNDS = {
    "quick": "descriptions of 1..3 dimensions, every malformation class of the property at every dimension, singly and "
             "in pairs (<= 2 simultaneous malformations, all conditional_on values in [-1, n_dim]); 7 carrier families "
             "rotated; fit descriptions, data shape, method / weight keywords from a fixed list of valid and invalid "
             "strings; HDC limits/deltas shapes; NaN/inf at every position of a 2x2 evaluation array; 1- and 3-D models "
             "for the 2-D-only contours; slicer option malformations",
    "thorough": "plus 4-dimensional descriptions and up to three simultaneous malformations in 2-D",
}
OUTSIDE = [
    "strings are taken from a fixed list (valid spellings, case variants, near misses), not from all strings",
    "type malformations other than the listed ones (e.g. a description that is not a dict)",
]
ASSUMPTIONS = [
    "well-formedness predicate written from the property text (first variable unconditional; 0 <= conditional_on[i] < i; "
    "distribution present; parameters present for conditional variables; every parameter exactly one of "
    "fixed/dependent; no unknown keys or parameter names)",
]


def _dep():
    DF = shim.mod("dependencies").DependenceFunction

    def lin(x, a=1.0, b=0.1):
        return a + b * x

    return DF(lin)


def h_descriptions(h):
    nd = h.cfg["n_dim"]
    maxbad = h.cfg["max_bad"]
    vc = shim.virocon()
    fams = [FAMILIES[SHIPPED[(i + h.cfg["rot"]) % len(SHIPPED)]] for i in range(nd)]
    flags, conds, bad_terms = [], [], []
    for i in range(nd):
        f = {k: h.boolean(f"d{i}_{k}") for k in ("nodist", "unknownkey", "noparams", "both", "neither", "unknownparam")}
        c = h.integer(f"d{i}_cond", -2, nd)      # -2: unconditional; else the declared conditioning index
        flags.append(f)
        conds.append(c)
    if h.sym:
        import z3
        cnt = 0
        for i in range(nd):
            for k, b in flags[i].items():
                cnt = cnt + z3.If(b.t, 1, 0)
            c = conds[i].t
            okc = z3.Or(c == -2, z3.And(c >= 0, c < i))
            cnt = cnt + z3.If(okc, 0, 1)
            # parameter malformations only make sense on a conditional variable
            for k in ("noparams", "both", "neither", "unknownparam"):
                h.E.assume(z3.Implies(c == -2, z3.Not(flags[i][k].t)))
            h.E.assume(z3.Implies(flags[i]["noparams"].t,
                                  z3.Not(z3.Or(flags[i]["both"].t, flags[i]["neither"].t, flags[i]["unknownparam"].t))))
        h.E.assume(cnt <= maxbad)
    # concretise the specification on this path (every decision is a solver-checked branch)
    descs, well = [], True
    for i in range(nd):
        fam = fams[i]
        fl = {k: bool(v) for k, v in flags[i].items()}
        cval = None
        for k in range(-2, nd + 1):
            if bool(conds[i] == k):
                cval = k
                break
        if not h.sym:
            if cval == -2 and any(fl[k] for k in ("noparams", "both", "neither", "unknownparam")):
                h.assume(False)
            if fl["noparams"] and (fl["both"] or fl["neither"] or fl["unknownparam"]):
                h.assume(False)
        d = {}
        pnames = list(fam.params)
        if fam.cls == "LogNormalNormFitDistribution":
            dep, fixed = list(pnames), []
        else:
            dep, fixed = pnames[:1], pnames[1:]
        kw = {}
        if cval != -2:
            # fixed values are symbolic (0 included: a location fixed at zero is the most common fixed parameter)
            kw = {f"f_{p}": h.real(f"d{i}_fix_{p}", 0.0, 2.0) for p in fixed}
            params = {p: _dep() for p in dep}
            if fl["both"]:
                # a parameter that is fixed in the template AND given a dependence function
                if fixed:
                    params[fixed[0]] = _dep()
                else:
                    # no fixed parameter in this template: fix one that also has a dependence function - a different
                    # one than the 'neither' malformation removes (on the same parameter the two would cancel)
                    if len(dep) < 2 and fl["neither"]:
                        h.assume(False)
                    kw[f"f_{dep[-1]}"] = h.real(f"d{i}_fixboth", 0.0, 2.0)
            if fl["neither"]:
                del params[dep[0]]
            if fl["unknownparam"]:
                params["no_such_parameter"] = _dep()
            d["conditional_on"] = cval
            if not fl["noparams"]:
                d["parameters"] = params
        if not fl["nodist"]:
            d["distribution"] = fam.make(**kw)
        if fl["unknownkey"]:
            d["interval"] = None   # typo of 'intervals'
        descs.append(d)
        ok_c = cval == -2 or (0 <= cval < i)
        if any(fl.values()) or not ok_c:
            well = False
    try:
        model = vc.GlobalHierarchicalModel(descs)
        accepted = True
    except (ValueError, RuntimeError, TypeError, KeyError, AttributeError, IndexError):
        accepted = False
    h.reach()
    h.check(accepted == well, "accepted-iff-well-formed",
            f"well_formed={well} accepted={accepted} spec={[{k: (v if k == 'conditional_on' else '...') for k, v in d.items()} for d in descs]}")


def _model2(nd=2):
    vc = shim.virocon()
    descs = [{"distribution": FAMILIES["Weibull"].make(alpha=2.0, beta=1.5, gamma=0.1)}]
    for i in range(1, nd):
        descs.append({"distribution": FAMILIES["LogNormal"].make(), "conditional_on": i - 1,
                      "parameters": {"mu": _dep(), "sigma": _dep()}})
    return vc.GlobalHierarchicalModel(descs)


def h_fit_spec(h):
    """fit descriptions / data of the wrong dimension or without method are rejected before anything is fitted"""
    kind = h.cfg["kind"]
    model = _model2(2)
    data = np.abs(np.random.default_rng(1).normal(2, 1, size=(12, 2))) + 0.1
    called = []
    for dist in model.distributions:
        dist.fit = lambda *a, **k: called.append(1)
    if kind == "fd_short":
        f = lambda: model.fit(data, [{"method": "mle"}])
    elif kind == "fd_long":
        f = lambda: model.fit(data, [{"method": "mle"}, None, None])
    elif kind == "fd_nomethod0":
        f = lambda: model.fit(data, [{"weights": None}, None])
    elif kind == "fd_nomethod1":
        f = lambda: model.fit(data, [None, {"weights": "linear"}])
    elif kind == "data_1col":
        f = lambda: model.fit(data[:, :1])
    elif kind == "data_3col":
        f = lambda: model.fit(np.c_[data, data[:, 0]])
    else:
        raise sym.HarnessError(kind)
    h.raises(f, (ValueError,), "ill-formed-fit-specification-rejected")
    h.check(len(called) == 0, "nothing-fitted-before-rejection")


VALID_METHODS = ["mle", "MLE", "Mle", "lsq", "LSQ", "wlsq", "WLSQ", "Wlsq"]
INVALID_METHODS = ["", " ", "ml", "mle ", " mle", "mlee", "m.l.e", "lsqq", "wls", "wlsqq", "mom", "least_squares", "None"]
VALID_WEIGHTS = [None, "linear", "LINEAR", "quadratic", "Quadratic", "cubic", "CUBIC"]
INVALID_WEIGHTS = ["", "lin", "linear ", "quartic", "square", "equal", "none", 3, 2.5, True]


def _carrier(h, fam):
    """the carrier distribution with a symbolic subset of its parameters fixed (none ... all of them)"""
    kw = {}
    for p in fam.params:
        if bool(h.boolean(f"fix_{p}")):
            lo, hi = fam.ranges[p]
            kw[f"f_{p}"] = 0.5 * (lo + hi)
    return fam.make(**kw)


def h_method_strings(h):
    fam = FAMILIES[h.cfg["family"]]
    d = _carrier(h, fam)
    m = h.cfg["method"]
    seen = []
    d._fit_mle = lambda data: seen.append("mle")
    d._fit_lsq = lambda data, w: seen.append("lsq")
    data = np.array([1.0, 2.0, 3.0])
    if m in VALID_METHODS:
        d.fit(data, m)
        want = [("mle" if m.lower() == "mle" else "lsq")]
        all_fixed = all(getattr(d, f"f_{p}", None) is not None for p in fam.params)
        # with nothing left to estimate an implementation may legitimately skip the estimator
        h.check(seen == want or (all_fixed and seen == []), "valid-method-dispatched")
    else:
        h.raises(lambda: d.fit(data, m), (ValueError,), "unknown-fit-method-rejected")
        h.check(seen == [], "nothing-fitted-before-rejection")


def h_weight_keywords(h):
    d = _carrier(h, FAMILIES["ExpWeibull"])
    w = h.cfg["weights"]
    data = np.array([1.0, 2.5, 0.7, 3.1, 1.9])
    if w in VALID_WEIGHTS:
        try:
            d.fit(data, "wlsq", w)
        except NotImplementedError:
            h.note("least squares with this set of fixed parameters is not implemented (an exception, not judged)")
            return
        h.check(bool(np.isfinite(float(d.alpha))), "valid-weights-accepted")
    else:
        a0, b0 = d.alpha, d.beta
        h.raises(lambda: d.fit(data, "wlsq", w), (ValueError, TypeError, NotImplementedError), "unknown-weight-keyword-rejected")
        h.check(d.alpha == a0 and d.beta == b0, "nothing-fitted-before-rejection")


BAD_GRID_STRUCT = ["limits_short", "limits_long", "limit_triple", "limit_single", "limit_scalar", "deltas_short", "deltas_long"]
BAD_GRID_VALUE = ["deltas_negative", "deltas_zero", "deltas_one_negative", "deltas_nan", "limit_degenerate", "limit_nan"]


def h_hdc_grid(h):
    C = shim.mod("contours")
    model = _model2(2)
    kind = h.cfg["kind"]
    good_l, good_d = [(0, 6), (0, 12)], [1.0, 2.0]
    bad = {
        "limits_short": ([(0, 6)], good_d), "limits_long": ([(0, 6), (0, 12), (0, 3)], good_d),
        "limit_triple": ([(0, 6, 7), (0, 12)], good_d), "limit_single": ([(0,), (0, 12)], good_d),
        "limit_scalar": ([6, (0, 12)], good_d), "deltas_short": (good_l, [1.0]),
        "deltas_long": (good_l, [1.0, 2.0, 3.0]),
        # value-level malformations: any exception counts as a rejection, a computed contour does not
        "deltas_negative": (good_l, -1.0), "deltas_zero": (good_l, 0), "deltas_one_negative": (good_l, [1.0, -2.0]),
        "deltas_nan": (good_l, math.nan), "limit_degenerate": ([(0, 6), (5, 5)], good_d),
        "limit_nan": ([(0, 6), (0, math.nan)], good_d),
    }
    if kind == "good":
        with warnings.catch_warnings():
            warnings.simplefilter("ignore")
            c = C.HighestDensityContour(model, 0.2, limits=good_l, deltas=good_d)
        h.check(c.coordinates is not None, "well-formed-grid-accepted")
        return
    l, d = bad[kind]

    def f():
        with warnings.catch_warnings():
            warnings.simplefilter("ignore")
            C.HighestDensityContour(model, 0.2, limits=l, deltas=d)

    h.raises(f, (ValueError,) if kind in BAD_GRID_STRUCT else (ValueError, IndexError, ZeroDivisionError, TypeError),
             "malformed-grid-rejected")


def h_nonfinite(h):
    """a NaN or inf anywhere in the evaluation points is rejected by pdf and cdf"""
    model = _model2(2)
    which = h.cfg["fn"]
    pos = h.cfg["pos"]
    bad = {"nan": math.nan, "inf": math.inf, "-inf": -math.inf}[h.cfg["bad"]]
    x = np.array([[1.0, 2.0], [1.5, 2.5]])
    x[pos // 2, pos % 2] = bad
    probe = stubs.NquadProbe(h)
    with stubs.patch_attr(shim.mod("jointmodels"), "integrate", stubs.IntegrateProxy(probe)):
        h.raises(lambda: getattr(model, which)(x), (ValueError,), "non-finite-point-rejected")
    h.check(len(probe.calls) == 0, "nothing-integrated-before-rejection")


def h_nonfinite_symbolic(h):
    """the same with a symbolic 'is NaN' flag per element: rejected iff some element is NaN"""
    import z3
    model = _model2(2)
    which = h.cfg["fn"]
    flags = [h.boolean(f"nan{k}") for k in range(4)]
    vals = [h.real(f"v{k}", 0.5, 4.0) for k in range(4)]
    if h.sym:
        els = [sym.SR(vals[k].t, flags[k].t) for k in range(4)]
        x = np.array(els, dtype=object).reshape(2, 2).view(sym.SymArray)
    else:
        x = np.array([math.nan if flags[k] else vals[k] for k in range(4)]).reshape(2, 2)
    probe = stubs.NquadProbe(h)
    try:
        with stubs.patch_attr(shim.mod("jointmodels"), "integrate", stubs.IntegrateProxy(probe)):
            getattr(model, which)(x)
        raised = False
    except ValueError:
        raised = True
    anynan = any(bool(f) for f in flags)
    h.reach()
    h.check(raised == anynan, "rejected-iff-some-element-is-nan")


def h_contour_dim(h):
    C = shim.mod("contours")
    cls = getattr(C, h.cfg["contour"])
    nd = h.cfg["n_dim"]
    model = _model2(nd) if nd > 1 else shim.virocon().GlobalHierarchicalModel(
        [{"distribution": FAMILIES["Weibull"].make(alpha=2.0, beta=1.5, gamma=0.1)}])
    sample = np.abs(np.random.default_rng(2).normal(2, 1, size=(60, nd))) + 0.1
    h.raises(lambda: cls(model, 0.1, sample=sample), (NotImplementedError,), "non-2D-model-rejected")


def h_iform_type(h):
    C = shim.mod("contours")
    bad = {"str": "model", "none": None, "dict": {"n_dim": 2}, "dist": FAMILIES["Weibull"].make()}[h.cfg["arg"]]
    h.raises(lambda: C.IFORMContour(bad, 0.1), (TypeError,), "non-model-rejected")


def h_slicers(h):
    I = shim.mod("intervals")
    kind = h.cfg["kind"]
    data = np.linspace(0.05, 9.95, 100)
    if kind == "unknown_kwarg":
        for f in (lambda: I.WidthOfIntervalSlicer(1.0, min_points=3), lambda: I.NumberOfIntervalsSlicer(4, foo=1),
                  lambda: I.PointsPerIntervalSlicer(10, min_intervals=2)):
            h.raises(f, (TypeError,), "unknown-slicer-option-rejected")
    elif kind == "bad_reference_str":
        for f in (lambda: I.WidthOfIntervalSlicer(1.0, reference="middle", min_n_points=1).slice_(data),
                  lambda: I.NumberOfIntervalsSlicer(4, reference="centre", min_n_points=1).slice_(data)):
            h.raises(f, (ValueError,), "unknown-reference-keyword-rejected")
    elif kind == "bad_reference_type":
        for f in (lambda: I.WidthOfIntervalSlicer(1.0, reference=3, min_n_points=1).slice_(data),
                  lambda: I.NumberOfIntervalsSlicer(4, reference=None, min_n_points=1).slice_(data)):
            h.raises(f, (TypeError,), "wrong-reference-type-rejected")
    elif kind == "too_few_intervals":
        for f in (lambda: I.WidthOfIntervalSlicer(5.0, min_n_points=1, min_n_intervals=3).slice_(data),
                  lambda: I.NumberOfIntervalsSlicer(5, min_n_points=30, min_n_intervals=3).slice_(data),
                  lambda: I.PointsPerIntervalSlicer(40, min_n_points=40, min_n_intervals=3).slice_(data)):
            h.raises(f, (RuntimeError,), "too-few-intervals-rejected")
    elif kind == "good":
        r = I.WidthOfIntervalSlicer(2.0, min_n_points=1, min_n_intervals=3).slice_(data)
        h.check(len(r[0]) >= 3, "well-formed-slicer-accepted")


def obligations(tier):
    for nd in ((1, 2, 3) if tier == "quick" else (1, 2, 3, 4)):
        for rot in ((0, 3) if tier == "quick" else range(7)):
            mb = 2
            yield ("descriptions", h_descriptions, {"n_dim": nd, "rot": rot, "max_bad": mb}, {"max_paths": 200000})
    if tier == "thorough":
        yield ("descriptions", h_descriptions, {"n_dim": 2, "rot": 1, "max_bad": 3}, {"max_paths": 200000})
    for k in ("fd_short", "fd_long", "fd_nomethod0", "fd_nomethod1", "data_1col", "data_3col"):
        yield ("fit_spec", h_fit_spec, {"kind": k}, {})
    for fam in SHIPPED:
        for m in VALID_METHODS + INVALID_METHODS:
            yield ("method_strings", h_method_strings, {"family": fam, "method": m}, {})
    for w in VALID_WEIGHTS + INVALID_WEIGHTS:
        yield ("weight_keywords", h_weight_keywords, {"weights": w}, {})
    for k in ["good"] + BAD_GRID_STRUCT + BAD_GRID_VALUE:
        yield ("hdc_grid", h_hdc_grid, {"kind": k}, {})
    for fn in ("pdf", "cdf"):
        for bad in ("nan", "inf", "-inf"):
            for pos in range(4):
                yield ("nonfinite", h_nonfinite, {"fn": fn, "bad": bad, "pos": pos}, {})
        yield ("nonfinite_symbolic", h_nonfinite_symbolic, {"fn": fn}, {})
    for c in ("DirectSamplingContour", "AndContour", "OrContour"):
        for nd in (1, 3):
            yield ("contour_dim", h_contour_dim, {"contour": c, "n_dim": nd}, {})
    for a in ("str", "none", "dict", "dist"):
        yield ("iform_type", h_iform_type, {"arg": a}, {})
    for k in ("good", "unknown_kwarg", "bad_reference_str", "bad_reference_type", "too_few_intervals"):
        yield ("slicers", h_slicers, {"kind": k}, {})
