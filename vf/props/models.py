"""Builders for GlobalHierarchicalModels with symbolic parameters, plus their independent reference description
(which family, which scipy argument tuple, conditioned on which column) used by the oracles of C01/C02/C06/C07."""

from __future__ import annotations

import itertools

import numpy as np

from .. import shim
from .families import FAMILIES, declare_params

ROTATION = ["Weibull", "LogNormal", "ExpWeibull", "Normal", "GenGamma", "LogNormalNormFit", "VonMises"]


def structures(n_dim):
    """all admissible conditional_on vectors: conditional_on[0] is None, conditional_on[i] in {None, 0..i-1}"""
    opts = [[None]] + [[None] + list(range(i)) for i in range(1, n_dim)]
    return [tuple(c) for c in itertools.product(*opts)]


def skey(struct):
    return "".join("-" if c is None else str(c) for c in struct)


def parse_skey(s):
    return tuple(None if ch == "-" else int(ch) for ch in s)


class Dim:
    def __init__(self, fam, cond, fixed, dep_coef):
        self.fam, self.cond, self.fixed, self.dep_coef = fam, cond, fixed, dep_coef

    def theta(self, given=None):
        """parameter dict of this dimension at conditioning value(s) `given` (reference, written independently)"""
        th = dict(self.fixed)
        for p, (a, b) in self.dep_coef.items():
            th[p] = a + b / (1 + given * given)
        return th

    def ref(self, given=None):
        return self.fam.ref(self.theta(given))


def build_model(h, struct, rot=0, prefix="m", n_dependent=2):
    """returns (GlobalHierarchicalModel, [Dim...])"""
    vc = shim.virocon()
    DF = shim.mod("dependencies").DependenceFunction
    descs, dims = [], []
    for i, cond in enumerate(struct):
        fam = FAMILIES[ROTATION[(i + rot) % len(ROTATION)]]
        if cond is None:
            th = declare_params(h, fam, f"{prefix}{i}_")
            descs.append({"distribution": fam.make(**th)})
            dims.append(Dim(fam, None, th, {}))
            continue
        if fam.cls == "LogNormalNormFitDistribution":
            dep_names = list(fam.params)  # the family requires both or none
        else:
            dep_names = list(fam.params[:n_dependent])
        fixed_names = [p for p in fam.params if p not in dep_names]
        fixed = declare_params(h, fam, f"{prefix}{i}f_", names=fixed_names)
        coef, funcs = {}, {}
        for p in dep_names:
            lo, hi = fam.ranges[p]
            a = h.real(f"{prefix}{i}_{p}_a", lo, min(hi, lo + 1.0))
            b = h.real(f"{prefix}{i}_{p}_b", 0.05, 0.4)
            coef[p] = (a, b)

            def bounded(x, a, b):
                # admissible for every real conditioning value (normal / von Mises variables may be negative)
                return a + b / (1 + x * x)

            d = DF(bounded)
            d.parameters = {"a": a, "b": b}
            funcs[p] = d
        tmpl = fam.make(**{f"f_{p}": v for p, v in fixed.items()})
        descs.append({"distribution": tmpl, "conditional_on": cond, "parameters": funcs})
        dims.append(Dim(fam, cond, fixed, coef))
    model = vc.GlobalHierarchicalModel(descs)
    return model, dims
