"""C05 - every distribution's cdf/icdf/pdf follow the documented parameterisation and each other."""

from __future__ import annotations

import numpy as np

from .. import sym
from .families import FAMILIES, subsets, declare_params

PROPERTY = "C05"
FUNCTIONS = [
    "distributions.WeibullDistribution._get_scipy_parameters", "distributions.WeibullDistribution.cdf",
    "distributions.WeibullDistribution.icdf", "distributions.WeibullDistribution.pdf",
    "distributions.LogNormalDistribution._get_scipy_parameters", "distributions.LogNormalDistribution.cdf",
    "distributions.LogNormalDistribution.icdf", "distributions.LogNormalDistribution.pdf",
    "distributions.NormalDistribution._get_scipy_parameters", "distributions.NormalDistribution.cdf",
    "distributions.NormalDistribution.icdf", "distributions.NormalDistribution.pdf",
    "distributions.LogNormalNormFitDistribution._get_scipy_parameters",
    "distributions.LogNormalNormFitDistribution.calculate_mu",
    "distributions.LogNormalNormFitDistribution.calculate_sigma",
    "distributions.ExponentiatedWeibullDistribution._get_scipy_parameters",
    "distributions.ExponentiatedWeibullDistribution.cdf", "distributions.ExponentiatedWeibullDistribution.icdf",
    "distributions.ExponentiatedWeibullDistribution.pdf",
    "distributions.GeneralizedGammaDistribution._get_scipy_parameters",
    "distributions.GeneralizedGammaDistribution.cdf", "distributions.GeneralizedGammaDistribution.pdf",
    "distributions.VonMisesDistribution._get_scipy_parameters", "distributions.VonMisesDistribution.cdf",
    "distributions.ScipyDistribution.__init__", "distributions.ScipyDistribution._get_scipy_parameters",
    "distributions.ScipyDistribution.cdf",
]
BOUNDS = {
    "quick": "9 families x {cdf,icdf,pdf} x every subset of explicitly passed parameters (keyword and positional) x argument "
             "kind scalar/array(2); all parameter values and evaluation points symbolic reals in admissible ranges",
    "thorough": "as quick plus positional passing, Python-list arguments, arrays of length 3 and of shape (2,2), and two instances "
                "evaluated alternately",
}
BOUNDS["quick"] += ("; plus integer-typed explicit parameters for every family; plus CONCRETE runs (not solver-based) at "
                    "parameter magnitudes a factor 10 outside those ranges and tail probabilities 1e-12 .. 1-1e-9 against "
                    "the scipy kernel at the documented argument tuple")
BOUNDS["thorough"] += "; the same integer-typed and concrete extreme-parameter obligations"
OUTSIDE = [
    "numerical accuracy of scipy.stats (kernels are uninterpreted functions constrained by their contract)",
    "an implementation that evaluates a family's formula itself instead of calling the scipy kernel cannot be matched "
    "with the uninterpreted kernel: the symbolic run then answers 'not decided' (exit 3), only the concrete "
    "extreme-parameter runs judge it",
    "formula-level identity for scipy's own implementation of each family: the documented scipy standard form is "
    "taken as scipy's contract, so 'documented formula' is decided as 'documented argument mapping'",
    "floating-point rounding of exp/log/sqrt in the mapping (Real mode)",
]
ASSUMPTIONS = [
    "scipy.stats.<family>.cdf/ppf/pdf are functions of (x, shapes, loc, scale) only (uninterpreted, with range, "
    "inverse and NaN-propagation contract instances)",
    "reference mapping table vf/props/families.py written from the virocon and scipy docstrings",
]

METHODS = {"cdf": "cdf", "icdf": "ppf", "pdf": "pdf"}


def _x(h, kind, method):
    n = {"scalar": 1, "array": 2, "array3": 3, "list": 2, "array2x2": 4}[kind]
    if method == "icdf":
        xs = [h.real(f"p{i}", 0.02, 0.98) for i in range(n)]
    else:
        xs = [h.real(f"x{i}", -1.0, 8.0) for i in range(n)]
    if kind == "scalar":
        return xs[0], xs
    if kind == "list":
        return list(xs), xs
    if kind == "array2x2":
        return h.arr(xs).reshape(2, 2), xs
    return h.arr(xs), xs


def expected(h, fam, method, x, theta):
    """reference: scipy kernel of the documented family at the documented argument tuple"""
    ref = fam.ref(theta)
    k = getattr(getattr(h.K, fam.scipy), METHODS[method])
    xa = h.arr(x) if isinstance(x, list) else x
    if fam.cls == "ExponentiatedWeibullDistribution" and method == "pdf":
        # documented: density is zero outside the support (x <= 0)
        if h.sym:
            from ..npx import where
            return where(xa > 0, k(xa, *ref), 0.0) if not isinstance(xa, (sym.SR,)) else sym.If(xa > 0, k(xa, *ref), 0.0)
        with np.errstate(all="ignore"):
            return np.where(np.asarray(xa) > 0, k(np.where(np.asarray(xa) > 0, xa, 1.0), *ref), 0.0)
    return k(xa, *ref)


def h_mapping(h):
    """Dist(**theta_inst).f(x, **theta_explicit[S]) == scipy kernel at ref(theta_effective)"""
    fam = FAMILIES[h.cfg["family"]]
    method = h.cfg["method"]
    S = tuple(p for p in h.cfg["explicit"].split("+") if p)
    inst = declare_params(h, fam, "i_")
    expl = declare_params(h, fam, "e_", names=S)
    for p in S:  # make explicit values robustly different from the instance's
        h.distinct([inst[p], expl[p]], 0.25)
    x, xs = _x(h, h.cfg["kind"], method)
    d = fam.make(**inst)
    theta = dict(inst)
    theta.update(expl)
    f = getattr(d, method)
    if h.cfg["passing"] == "kw":
        got = f(x, **expl)
    else:
        got = f(x, *[expl.get(p) for p in fam.params])
    h.reach()
    h.close(got, expected(h, fam, method, x, theta), "documented-mapping")
    # the instance itself is unchanged and the caller's argument is not modified
    for p in fam.params:
        h.close(d.parameters[p], inst[p], "instance-parameters-unchanged")
    if isinstance(x, list):
        h.check(all(a is b for a, b in zip(x, xs)), "argument-not-modified")


INT_VALUES = {"alpha": 2, "beta": 2, "gamma": 1, "mu": 1, "sigma": 2, "delta": 3, "m": 2, "c": 3, "lambda_": 2,
              "kappa": 2, "mu_norm": 3, "sigma_norm": 2, "loc": 1, "scale": 2, "a": 2}


def h_mapping_int(h):
    """explicit parameters given as Python ints (lambda_=2, ...): same result as an instance constructed with them"""
    fam = FAMILIES[h.cfg["family"]]
    method = h.cfg["method"]
    S = tuple(p for p in h.cfg["explicit"].split("+") if p)
    inst = declare_params(h, fam, "i_")
    expl = {p: INT_VALUES[p] for p in S}
    x, xs = _x(h, h.cfg["kind"], method)
    if method != "icdf":
        for v in xs:        # inside every family's support for these integer parameters
            h.assume(v >= 1.5)
    d = fam.make(**inst)
    theta = dict(inst)
    theta.update(expl)
    got = getattr(d, method)(x, **expl)
    h.reach()
    h.close(got, expected(h, fam, method, x, theta), "integer-typed-explicit-parameters")
    d2 = fam.make(**theta)
    h.close(getattr(d2, method)(x), got, "explicit-equals-constructed")


def h_normfit_partial(h):
    """LogNormalNormFit: passing only one of (mu_norm, sigma_norm) is rejected, never half-applied"""
    fam = FAMILIES["LogNormalNormFit"]
    inst = declare_params(h, fam, "i_")
    p = h.cfg["explicit"]
    e = declare_params(h, fam, "e_", names=[p])
    x = h.real("x0", 0.1, 8.0)
    d = fam.make(**inst)
    h.raises(lambda: getattr(d, h.cfg["method"])(x, **e), (RuntimeError,), "partial-override-rejected")


def h_normfit_moments(h):
    """documented meaning of the norm-fit parameters: mean = mu_norm, variance = sigma_norm^2 of the
    log-normal that is handed to scipy: mean = scale*exp(s^2/2), var = (exp(s^2)-1)*scale^2*exp(s^2)."""
    import z3
    fam = FAMILIES["LogNormalNormFit"]
    inst = declare_params(h, fam, "i_")
    d = fam.make(**inst) if h.cfg["via"] == "instance" else fam.make()
    if h.cfg["via"] == "instance":
        s, loc, scale = d._get_scipy_parameters(None, None)
    else:
        s, loc, scale = d._get_scipy_parameters(inst["mu_norm"], inst["sigma_norm"])
    s2 = s * s
    half = h.exp(s2 / 2)
    full = h.exp(s2)
    if h.sym:
        # lemma instance of exp(a+b) = exp(a)exp(b) with a = b = s^2/2 (listed in evidence as an assumption)
        h.E.axiom(sym.bterm(half * half == full))
    h.close(loc, 0, "loc-zero")
    h.close(scale * half, inst["mu_norm"], "mean-is-mu_norm", rtol=1e-9)
    h.close((full - 1) * scale * scale * full, inst["sigma_norm"] ** 2, "variance-is-sigma_norm^2", rtol=1e-8)


def h_extreme_parameters(h):
    """CONCRETE (not solver-based): parameter magnitudes a factor 10 outside the symbolic ranges and evaluation points
    far in both tails, compared with the scipy kernel at the documented argument tuple - guards own formulas whose
    floating-point behaviour differs from scipy's (Real mode cannot see cancellation)"""
    if h.sym:
        h.note("concrete obligation: decided by the run on the real libraries only")
        return
    import itertools
    import scipy.stats as sts_
    fam = FAMILIES[h.cfg["family"]]
    method = h.cfg["method"]
    grids = []
    for p in fam.params:
        lo, hi = fam.ranges[p]
        lo_ext = lo / 10.0 if lo > 0 else lo * 3.0 - 1.0
        grids.append([lo_ext, 0.5 * (lo + hi), hi * 10.0])
    h.reach()
    probs = [1e-12, 1e-6, 0.01, 0.5, 0.99, 1 - 1e-9]
    bad = []
    for combo in itertools.product(*grids):
        theta = dict(zip(fam.params, combo))
        ref = fam.ref(theta)
        k = getattr(sts_, fam.scipy)
        try:
            d = fam.make(**theta)
        except Exception:
            continue
        with np.errstate(all="ignore"):
            pts = probs if method == "icdf" else [float(v) for v in k.ppf(probs, *ref) if np.isfinite(v)]
            if not pts:
                continue
            got = np.asarray(getattr(d, method)(np.array(pts)), dtype=float)
            want = np.asarray(getattr(k, METHODS[method])(np.array(pts), *ref), dtype=float)
            if fam.cls == "ExponentiatedWeibullDistribution" and method == "pdf":
                want = np.where(np.array(pts) > 0, want, 0.0)
        ok = (np.isnan(got) & np.isnan(want)) | (np.abs(got - want) <= 1e-9 * np.maximum(np.abs(want), 1e-300)) | (got == want)
        if not bool(np.all(ok)):
            i = int(np.argmin(ok))
            bad.append(f"{theta} at {pts[i]!r}: {got[i]!r} vs scipy {want[i]!r}")
    h.check(not bad, "documented-kernel-at-extreme-parameters-and-tails", "; ".join(bad[:3]))


def obligations(tier):
    for fname in FAMILIES:
        for method in METHODS:
            yield ("extreme_parameters", h_extreme_parameters, {"family": fname, "method": method}, {})
    kinds = ["scalar", "array"] if tier == "quick" else ["scalar", "array", "array3", "list", "array2x2"]
    passings = ["kw", "pos"]
    for fname, fam in FAMILIES.items():
        for method in METHODS:
            for S in subsets(fam.params):
                if fname == "LogNormalNormFit" and len(S) == 1:
                    yield ("normfit_partial", h_normfit_partial, {"method": method, "explicit": S[0]}, {})
                    continue
                for kind in kinds:
                    for passing in passings:
                        if passing == "pos" and fam.subclass and S and S != tuple(fam.params):
                            # ScipyDistribution documents None placeholders for positional args too
                            pass
                        cfg = {"family": fname, "method": method, "explicit": "+".join(S), "kind": kind,
                               "passing": passing}
                        yield ("mapping", h_mapping, cfg, {})
    for fname, fam in FAMILIES.items():
        for method in METHODS:
            sets = [(p,) for p in fam.params] + [tuple(fam.params)]
            if fname == "LogNormalNormFit":
                sets = [tuple(fam.params)]
            for S in sets:
                for kind in (("array",) if tier == "quick" else ("scalar", "array")):
                    yield ("mapping_int", h_mapping_int,
                           {"family": fname, "method": method, "explicit": "+".join(S), "kind": kind}, {})
    for via in ("instance", "explicit"):
        yield ("normfit_moments", h_normfit_moments, {"via": via}, {})
