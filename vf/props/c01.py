"""C01 - IFORM/ISORM contours are the inverse-Rosenblatt image of the beta-sphere."""

from __future__ import annotations

import math

import numpy as np

from .. import sym, shim, stx
from .models import structures, skey, parse_skey, build_model

PROPERTY = "C01"
FUNCTIONS = [
    "contours.IFORMContour.__init__", "contours.IFORMContour._compute", "contours.ISORMContour._compute",
    "contours.Contour.__init__", "jointmodels.GlobalHierarchicalModel.__init__",
    "distributions.ConditionalDistribution.icdf", "distributions.ConditionalDistribution._get_param_values",
    "dependencies.DependenceFunction.__call__", "_nsphere.NSphere.__init__", "_nsphere.NSphere._relax_points",
    "_nsphere.NSphere._random_unit_sphere_points",
]
BOUNDS = {
    "quick": "n_dim in {2,3}: all 2+6 dependence structures x 2 family rotations, n_points in {3,5}; n_dim = 4: 6 of 24 "
             "structures; alpha symbolic in [1e-8, 0.5], all distribution parameters and dependence coefficients "
             "symbolic; 2-D angle grid / point count additionally for every n_points in 3..128 (concrete grid, symbolic model)",
    "thorough": "all 24 4-D structures, 7 rotations in 2-D/3-D, n_points in {3,4,5,6,7}; grid for n_points in 3..1024",
}
OUTSIDE = [
    "accuracy of scipy's ppf/cdf (uninterpreted with inverse/monotone/range contract instances)",
    "n_points beyond the bound for the symbolic Rosenblatt identity (points are computed element-wise and identically)",
    "NSphere direction quality for n_points beyond the bound (unit norm and distinctness are checked on the concrete "
    "NSphere output for the n_points in the bound only)",
    "TransformedModel branch of IFORM (see C16)",
]
ASSUMPTIONS = [
    "scipy kernels: cdf(ppf(p,θ),θ)=p for 0<p<1; Φ strictly increasing bijection onto (0,1); cdf/ppf non-decreasing",
    "Real mode; U-space comparisons carry a 1e-6 relative tolerance inside the formula (cos/sin grid values are doubles)",
]


def _contour(h, kind, model, alpha, n_points):
    C = shim.mod("contours")
    return (C.IFORMContour if kind == "iform" else C.ISORMContour)(model, alpha, n_points=n_points)


def _beta_ref(h, kind, alpha, n_dim):
    if kind == "iform":
        b = h.K.norm.ppf(1 - alpha, 0, 1)
        if h.sym:  # contract instance: the standard normal has median 0, alpha <= 1/2
            h.E.axiom(sym.bterm(sym.lift(b) >= 0))
        return b
    b = np.sqrt(h.K.chi2.ppf(1 - alpha, n_dim, 0, 1))
    if h.sym:      # chi2_n^-1(p) <= 60 for n <= 4, p <= 1 - 1e-9, hence beta < 8 (keeps tolerance queries linear)
        h.E.axiom(sym.bterm(sym.lift(b) <= 8))
    return b


def _u_image(h, dims, coords, k):
    """standard-normal image of contour point k through the model's own (reference) conditional cdfs"""
    us = []
    for i, d in enumerate(dims):
        x = coords[k, i]
        ref = d.ref() if d.cond is None else d.ref(coords[k, d.cond])
        p = getattr(h.K, d.fam.scipy).cdf(x, *ref)
        us.append(h.K.norm.ppf(p, 0, 1))
    return us


def h_rosenblatt(h):
    kind = h.cfg["kind"]
    struct = parse_skey(h.cfg["struct"])
    nd, n = len(struct), h.cfg["n_points"]
    model, dims = build_model(h, struct, rot=h.cfg["rot"])
    alpha = h.real("alpha", 1e-8, 0.5) if h.sym or True else None
    c = _contour(h, kind, model, alpha, n)
    coords = c.coordinates
    h.reach()
    h.check(np.shape(coords) == (n, nd), "exactly-n_points-points", f"shape {np.shape(coords)}")
    beta = _beta_ref(h, kind, alpha, nd)
    h.close(c.beta, beta, "beta-is-documented-reliability-index", rtol=1e-9)
    if nd == 2:
        ang = [2 * math.pi * k / n for k in range(n)]
        units = np.array([[math.cos(a), math.sin(a)] for a in ang])
    else:
        units = np.asarray(sym.concretize(np.asarray(shim.mod("_nsphere").NSphere(dim=nd, n_samples=n).unit_sphere_points)))
        nrm = np.linalg.norm(units, axis=1)
        h.check(bool(np.all(np.abs(nrm - 1) < 1e-9)), "nsphere-unit-vectors")
        dmin = min(np.linalg.norm(units[i] - units[j]) for i in range(n) for j in range(i + 1, n))
        h.check(bool(dmin > 1e-3), "distinct-directions", f"min distance {dmin}")
    for k in range(n):
        us = _u_image(h, dims, coords, k)
        for i in range(nd):
            h.close(us[i], beta * units[k, i], "u-image-is-beta-times-direction", rtol=2e-5, approx=True)
        if not h.sym:
            # (symbolically this follows from the element-wise identity above and the unit norm of the directions,
            #  which is checked on the concrete direction array)
            r2 = sum(u * u for u in us)
            h.close(r2, beta * beta, "distance-beta-from-origin", rtol=5e-5)
    h.check(bool(np.all(np.abs(np.linalg.norm(units, axis=1) - 1) < 1e-9)), "directions-have-unit-norm")
    if nd == 2 and kind == "iform":
        d0 = dims[0]
        q = getattr(h.K, d0.fam.scipy).ppf(1 - alpha, *d0.ref())
        h.close(coords[0, 0], q, "first-point-is-marginal-quantile", rtol=1e-7)
        if h.sym:
            stx.add_monotonicity()
        for k in range(1, n):
            h.check(coords[k, 0] <= coords[0, 0] + 1e-9 * abs(coords[0, 0]) if not h.sym else coords[k, 0] <= coords[0, 0],
                    "max-first-variable-is-the-marginal-quantile")


def h_grid(h):
    """2-D: exactly n_points points at equally spaced angles starting on the positive first axis"""
    kind = h.cfg["kind"]
    n = h.cfg["n_points"]
    model, dims = build_model(h, (None, None), rot=0)  # grid and count do not depend on the model
    alpha = h.real("alpha", 1e-8, 0.5)
    c = _contour(h, kind, model, alpha, n)
    h.reach()
    h.check(np.shape(c.coordinates) == (n, 2), "exactly-n_points-points", f"shape {np.shape(c.coordinates)}")
    h.check(np.shape(c.sphere_points) == (n, 2), "exactly-n_points-directions", f"shape {np.shape(c.sphere_points)}")
    beta = _beta_ref(h, kind, alpha, 2)
    sp = c.sphere_points
    m = min(n, np.shape(sp)[0])
    exp = np.array([[math.cos(2 * math.pi * k / n), math.sin(2 * math.pi * k / n)] for k in range(m)])
    got = [[sp[k, 0], sp[k, 1]] for k in range(m)]
    h.close(got, [[beta * exp[k, 0], beta * exp[k, 1]] for k in range(m)], "equally-spaced-angles-from-positive-first-axis",
            rtol=1e-7, atol=1e-9, approx=True)


def obligations(tier):
    for kind in ("iform", "isorm"):
        for nd in (2, 3, 4):
            sts = structures(nd)
            if nd == 4 and tier == "quick":
                sts = sts[::4]
            rots = (0, 2) if tier == "quick" else (range(7) if nd <= 3 else (0, 3))
            pts = (3, 5) if tier == "quick" else (3, 4, 5, 6, 7)
            if nd == 4:
                pts = (4,) if tier == "quick" else (4, 6)
            for st in sts:
                for rot in rots:
                    for n in pts:
                        yield ("rosenblatt", h_rosenblatt,
                               {"kind": kind, "struct": skey(st), "rot": rot, "n_points": n}, {})
        top = 128 if tier == "quick" else 1024
        for n in range(3, top + 1):
            yield ("grid", h_grid, {"kind": kind, "n_points": n}, {})
