"""C19 - evaluation is pure and repeatable; predefined models share no state."""

from __future__ import annotations

import types
import warnings

import numpy as np

from .. import sym, shim, stubs, npx
from .families import FAMILIES
from .models import build_model, structures, skey, parse_skey

PROPERTY = "C19"
LEVEL_TEXT = ("frame conditions decided on symbolic state: every mutable attribute reachable from a model (distribution "
              "parameters, dependence-function coefficients, stored arrays) and every input array holds a distinct z3 "
              "symbol; one operation is executed on the real code and the complete state graph is compared "
              "term by term afterwards (a write of anything but the same term is a violation for every value); object "
              "graphs of two getter calls are checked for shared mutable objects; fit-A-then-fit-B histories with "
              "stubbed estimators")
FUNCTIONS = [
    "jointmodels.GlobalHierarchicalModel.pdf", "jointmodels.MultivariateModel.cdf",
    "jointmodels.GlobalHierarchicalModel.draw_sample", "jointmodels.GlobalHierarchicalModel.marginal_pdf",
    "jointmodels.GlobalHierarchicalModel.marginal_icdf", "contours.IFORMContour._compute",
    "contours.ISORMContour._compute", "contours.HighestDensityContour._compute",
    "contours.DirectSamplingContour._compute", "contours.AndContour._compute", "contours.OrContour._compute",
    "utils.calculate_design_conditions", "plotting.plot_2D_contour", "contours.save_contour_coordinates",
    "distributions.ConditionalDistribution.fit", "distributions.ExponentiatedWeibullDistribution.pdf",
    "predefined.get_DNVGL_Hs_Tz", "predefined.get_DNVGL_Hs_U", "predefined.get_OMAE2020_Hs_Tz",
    "predefined.get_OMAE2020_V_Hs", "predefined.get_Windmeier_EW_Hs_S", "predefined.get_Nonzero_EW_Hs_S",
    "dependencies.DependenceFunction.fit", "dependencies.DependenceFunction.callback",
]
BOUNDS = {
    "quick": "one operation from an arbitrary symbolic state (HDC, direct sampling, AND, OR and design conditions: from "
             "one fixed concrete state, their symbolic exploration forks too much; design conditions additionally with a caller-owned float64 array of two "
             "symbolic abscissae anywhere around a concrete pentagon, both swap_axis values): 18 evaluation / contour / export entry points on 2-D and "
             "3-D models (2 rotations), input arrays of 2-4 rows; 6 predefined getters called twice; histories fit A -> "
             "fit B (fresh description) for all 6 getters with scipy estimators and curve_fit stubbed",
    "thorough": "7 rotations, all 3-D structures, repeated evaluation twice",
}
OUTSIDE = [
    "matplotlib's / pandas' internal state; unseeded sampling (not deterministic by design)",
    "interleavings longer than one operation are covered by the frame argument (each operation preserves all state it "
    "is not documented to write), not enumerated",
    "_check_and_fill_fit_desc writes defaults into the caller's fit_descriptions (fit, not evaluation): recorded, not judged",
]
ASSUMPTIONS = ["stubs of scipy fit / curve_fit / rvs / nquad as in C06, C07, C11, C14"]

_ATOM = (int, float, str, bool, type(None), np.integer, np.floating, np.bool_)


def snapshot(root, max_depth=8):
    """(path -> value) for everything mutable reachable from root; values: z3 terms (as sexpr), floats, reprs"""
    out, seen = {}, set()
    path_now = [None]

    def val(v):
        if isinstance(v, sym.SR):
            OBJ[(id(out), path_now[0])] = v
            return ("sr", v.t.sexpr() + ("" if v.nan is None else "|nan:" + v.nan.sexpr()))
        if isinstance(v, sym.SB):
            return ("sb", v.t.sexpr())
        if isinstance(v, _ATOM):
            return ("a", repr(v))
        return None

    def walk(o, path, depth):
        path_now[0] = path
        a = val(o)
        if a is not None:
            out[path] = a
            return
        if depth > max_depth or id(o) in seen:
            out[path] = ("ref", type(o).__name__)
            return
        if isinstance(o, (types.FunctionType, types.BuiltinFunctionType, types.MethodType, type, types.ModuleType)):
            out[path] = ("fn", getattr(o, "__name__", "?"))
            return
        seen.add(id(o))
        out[path + "#id"] = ("id", id(o))
        if isinstance(o, np.ndarray):
            b = np.asarray(npx.deep_strip(o))
            out[path + "#shape"] = ("a", repr(b.shape))
            for k, e in enumerate(b.reshape(-1)):
                walk(e if b.dtype == object else e.item(), f"{path}[{k}]", depth + 1)
            return
        if isinstance(o, dict):
            out[path + "#keys"] = ("a", repr(list(o.keys())))
            for k, v in o.items():
                walk(v, f"{path}[{k!r}]", depth + 1)
            return
        if isinstance(o, (list, tuple, set, frozenset)):
            out[path + "#len"] = ("a", repr(len(o)))
            for k, v in enumerate(sorted(o, key=id) if isinstance(o, (set, frozenset)) else o):
                walk(v, f"{path}[{k}]", depth + 1)
            return
        import functools
        if isinstance(o, functools.partial):
            walk(o.keywords, path + ".keywords", depth + 1)
            return
        d = getattr(o, "__dict__", None)
        if d is not None:
            for k, v in d.items():
                walk(v, f"{path}.{k}", depth + 1)
            return
        out[path] = ("repr", type(o).__name__)

    walk(root, "$", 0)
    return out


OBJ = {}   # (snapshot id, path) -> the SR object, so that changed terms can be compared by the solver


def diff(a, b, h=None, label=None):
    """structural differences; a symbolic value whose TERM changed is handed to the solver (equal for all inputs?
    if not, the model is a concrete input on which the mutation is observable)"""
    ch = []
    for k in sorted(set(a) | set(b)):
        va, vb = a.get(k), b.get(k)
        if va != vb:
            if h is not None and va and vb and va[0] == "sr" and vb[0] == "sr":
                oa, ob = OBJ.get((id(a), k)), OBJ.get((id(b), k))
                if oa is not None and ob is not None:
                    h.close(ob, oa, label)
                    continue
            ch.append(f"{k}: {str(va)[:80]} -> {str(vb)[:80]}")
    return ch


class _Contour:
    def __init__(self, coords):
        self.coordinates = coords


OPS = ["pdf", "cdf", "draw_sample", "marginal_pdf", "marginal_cdf", "marginal_icdf", "iform", "isorm", "hdc",
       "direct_sampling", "and", "or", "design_conditions", "design_steps", "plot", "plot_swap", "save", "ew_pdf",
       "cond_eval"]


HEAVY = ("hdc", "direct_sampling", "and", "or", "design_conditions")


class _ConstH:
    """deterministic concrete values for operations whose symbolic exploration forks too much: the frame check
    then runs on one concrete (but arbitrary-looking) state; stated in BOUNDS"""
    sym = False

    def __init__(self):
        self.k = 0

    def real(self, name, lo=None, hi=None, **kw):
        self.k += 1
        lo = -1.0 if lo is None else lo
        hi = lo + 2.0 if hi is None else hi
        return lo + (hi - lo) * ((self.k * 0.6180339887) % 1.0)


def h_frame(h):
    struct = parse_skey(h.cfg["struct"])
    nd = len(struct)
    op = h.cfg["op"]
    real_h = h
    if op in HEAVY:
        h0 = _ConstH()
        h = types.SimpleNamespace(sym=False, real=h0.real, cfg=real_h.cfg, reach=real_h.reach, check=real_h.check,
                                  close=real_h.close, note=real_h.note)
        real_h.real("dummy", 0.0, 1.0)
    model, dims = build_model(h, struct, rot=h.cfg["rot"])
    C = shim.mod("contours")
    inputs = {}

    def arr(name, shape, lo, hi):
        a = np.empty(shape, dtype=object if h.sym else float)
        for idx in np.ndindex(shape):
            a[idx] = h.real(f"{name}{'_'.join(map(str, idx))}", lo, hi)
        a = a.view(sym.SymArray) if h.sym else a
        inputs[name] = a
        return a

    def run():
        probe = stubs.NquadProbe(h) if not hasattr(run, "probe") else run.probe
        run.probe = probe
        with stubs.patch_attr(shim.mod("jointmodels"), "integrate", stubs.IntegrateProxy(probe)), \
                warnings.catch_warnings():
            warnings.simplefilter("ignore")
            if op == "pdf":
                return model.pdf(inputs["x"])
            if op == "cdf":
                return model.cdf(inputs["x"])
            if op == "draw_sample":
                return model.draw_sample(3, random_state=11)
            if op in ("marginal_pdf", "marginal_cdf"):
                return getattr(model, op)(inputs["x1"], nd - 1)
            if op == "marginal_icdf":
                return model.marginal_icdf(np.array([0.3, 0.8]), 0)
            if op == "iform":
                return C.IFORMContour(model, inputs["alpha"], n_points=4).coordinates
            if op == "isorm":
                return C.ISORMContour(model, inputs["alpha"], n_points=4).coordinates
            if op == "hdc":
                lim = [(0.25, 1.25), (1.0, 2.5)] + [(0.5, 1.5)] * (nd - 2)
                try:
                    c = C.HighestDensityContour(model, 0.05, limits=lim, deltas=[1.0, 1.5] + [1.0] * (nd - 2))
                    return c.fm
                except (IndexError, ValueError):
                    return None
            if op == "direct_sampling":
                return C.DirectSamplingContour(model, 0.1, sample=inputs["s"], deg_step=60).coordinates
            if op in ("and", "or"):
                cls = C.AndContour if op == "and" else C.OrContour
                m2 = types.SimpleNamespace(n_dim=2, marginal_icdf=lambda p, d, **k: 3.0)
                try:
                    return cls(m2, 0.25, sample=inputs["s"], deg_step=30, allowed_error=0.6).coordinates
                except IndexError:
                    return None
            if op == "design_conditions":
                return shim.mod("utils").calculate_design_conditions(_Contour(inputs["poly"]), steps=[2.9, 3.4])
            if op == "design_steps":
                # the caller's own abscissae (a float64 ndarray: np.asarray hands it through without a copy)
                return shim.mod("utils").calculate_design_conditions(_Contour(inputs["cpoly"]), steps=inputs["steps"],
                                                                     swap_axis=h.cfg.get("swap", False))
            if op in ("plot", "plot_swap"):
                return shim.mod("plotting").plot_2D_contour(_Contour(inputs["poly"]), sample=inputs["s"],
                                                            design_conditions=inputs["dc"], swap_axis=(op == "plot_swap"),
                                                            ax=stubs.RecAxes()) and None
            if op == "save":
                rec = []
                sv = lambda *a, **k: rec.append((a, k))
                if real_h.sym:
                    npx.HOOKS["savetxt"] = sv
                    C.save_contour_coordinates(_Contour(inputs["poly"]), "f.txt")
                else:
                    with stubs.patch_attr(np, "savetxt", sv):
                        C.save_contour_coordinates(_Contour(inputs["poly"]), "f.txt")
                return None
            if op == "ew_pdf":
                d = FAMILIES["ExpWeibull"].make(alpha=inputs["par"][0], beta=inputs["par"][1], delta=inputs["par"][2])
                run.extra = d
                return d.pdf(inputs["xe"])
            if op == "cond_eval":
                cd = model.distributions[-1]
                return [cd.pdf(inputs["x1"], inputs["g1"]), cd.cdf(inputs["x1"], inputs["g1"]),
                        cd.icdf(inputs["p1"], inputs["g1"])]
        raise sym.HarnessError(op)

    # ---- inputs per operation (all symbolic)
    if op in ("pdf", "cdf"):
        arr("x", (2, nd), -1.0, 6.0)      # points below the support included
    if op in ("marginal_pdf", "marginal_cdf", "cond_eval"):
        arr("x1", (2,), 0.3, 6.0)
        arr("g1", (2,), 0.3, 3.0)
        arr("p1", (2,), 0.1, 0.9)
    if op in ("iform", "isorm"):
        inputs["alpha"] = h.real("alpha", 0.01, 0.4)
    if op in ("direct_sampling", "and", "or", "plot", "plot_swap"):
        if h.cfg.get("layout") == "F":
            # a column-major sample (np.array([hs, tz]).T, DataFrame.to_numpy()): its columns are contiguous, so
            # numpy routines asked to work in place really modify the caller's data
            arr("s", (7, 2), 0.2, 5.0)
            inputs["s"] = np.asfortranarray(inputs["s"])
        else:
            arr("s", (3, 2), 0.2, 5.0)
    if op in ("design_conditions", "plot", "plot_swap", "save"):
        if op == "design_conditions":
            base = np.array([[2.0, 1.0], [4.0, 1.5], [4.5, 4.0], [3.0, 5.0], [1.5, 3.0]])
            a = np.empty(base.shape, dtype=object if h.sym else float)
            for idx in np.ndindex(base.shape):
                a[idx] = base[idx] + h.real(f"poly{idx[0]}_{idx[1]}", -0.05, 0.05)
            inputs["poly"] = a.view(sym.SymArray) if h.sym else a
        else:
            arr("poly", (4, 2), 0.5, 6.0)
    if op == "design_steps":
        # concrete pentagon (in both orientations), two symbolic abscissae anywhere from left of it to right of it -
        # in particular on and arbitrarily close to its leftmost / rightmost point
        inputs["cpoly"] = np.array([[2.0, 1.0], [4.0, 1.5], [4.5, 4.0], [3.0, 5.0], [1.5, 3.0]])
        ax = 1 if h.cfg.get("swap") else 0
        lo_, hi_ = inputs["cpoly"][:, ax].min(), inputs["cpoly"][:, ax].max()
        arr("steps", (2,), lo_ - 0.25, hi_ + 0.25)
    if op in ("plot", "plot_swap"):
        arr("dc", (2, 2), 0.5, 6.0)
    if op == "ew_pdf":
        arr("par", (3,), 0.6, 3.0)
        arr("xe", (3,), -1.0, 4.0)

    state = {"model": model, "inputs": inputs}
    before = snapshot(state)
    r1 = run()
    after = snapshot(state)
    h.reach()
    ch = diff(before, after, h if h is real_h else None, "state-and-inputs-unchanged-by-evaluation")
    h.check(not ch, "state-and-inputs-unchanged-by-evaluation", "; ".join(ch[:4]))
    if op not in ("plot", "plot_swap", "save") and r1 is not None:
        r2 = run()
        h.check(not diff(after, snapshot(state)), "state-unchanged-by-second-evaluation")
        a1 = r1 if not isinstance(r1, list) else np.concatenate([np.ravel(npx.deep_strip(x)) for x in r1])
        a2 = r2 if not isinstance(r2, list) else np.concatenate([np.ravel(npx.deep_strip(x)) for x in r2])
        if op in ("cdf", "marginal_pdf", "marginal_cdf"):
            # the integral values are fresh unknowns per call; what must repeat is the integrand wiring (see C06)
            pc = run.probe.calls
            half = len(pc) // 2
            for a, b in zip(pc[:half], pc[half:]):
                h.check(len(a["ranges"]) == len(b["ranges"]), "repeatable-evaluation")
        else:
            h.close(a1, a2, "repeatable-evaluation")


GETTERS = ["get_DNVGL_Hs_Tz", "get_DNVGL_Hs_U", "get_OMAE2020_Hs_Tz", "get_OMAE2020_V_Hs", "get_Windmeier_EW_Hs_S",
           "get_Nonzero_EW_Hs_S"]


def _mutables(root):
    """ids of all mutable objects reachable from root"""
    found, stack, seen = {}, [("$", root)], set()
    import functools
    while stack:
        path, o = stack.pop()
        if id(o) in seen or isinstance(o, _ATOM) or isinstance(o, (types.ModuleType, type)):
            continue
        seen.add(id(o))
        if isinstance(o, (types.FunctionType, types.BuiltinFunctionType)):
            if o.__closure__:
                for k, cell in enumerate(o.__closure__):
                    try:
                        stack.append((f"{path}.closure{k}", cell.cell_contents))
                    except ValueError:
                        pass
            continue
        if isinstance(o, functools.partial):
            stack.append((path + ".func", o.func))
            stack.append((path + ".keywords", o.keywords))
            found[id(o)] = path
            continue
        if isinstance(o, dict):
            found[id(o)] = path
            stack.extend((f"{path}[{k!r}]", v) for k, v in o.items())
        elif isinstance(o, (list, set)):
            found[id(o)] = path
            stack.extend((f"{path}[{k}]", v) for k, v in enumerate(o))
        elif isinstance(o, (tuple, frozenset)):
            stack.extend((f"{path}[{k}]", v) for k, v in enumerate(o))
        elif isinstance(o, np.ndarray):
            found[id(o)] = path
        elif hasattr(o, "__dict__"):
            found[id(o)] = path
            stack.extend((f"{path}.{k}", v) for k, v in vars(o).items())
    return found


def _toy_data(getter, n=400):
    rng = np.random.default_rng(3)
    a = rng.weibull(1.6, size=n) * 2.2 + 0.05
    if "V_Hs" in getter:
        a = a * 4.0
    b = np.exp(0.4 + 0.25 * np.sqrt(a) + 0.2 * rng.normal(size=n))
    if getter.endswith("Hs_S"):
        b = 0.01 + 0.05 * rng.beta(2, 3, size=n)
    return np.c_[a, b]


def h_getters(h):
    P = shim.mod("predefined")
    g = getattr(P, h.cfg["getter"])
    A, B = g(), g()
    ma, mb = _mutables(A), _mutables(B)
    shared = sorted(set(ma) & set(mb))
    h.check(not shared, "two-calls-share-no-mutable-object", "; ".join(f"{ma[i]} is {mb[i]}" for i in shared[:4]))
    vc = shim.virocon()
    m1, m2 = vc.GlobalHierarchicalModel(A[0]), vc.GlobalHierarchicalModel(B[0])
    shared = sorted(set(_mutables(m1)) & set(_mutables(m2)))
    h.check(not shared, "two-models-share-no-mutable-object")


def h_fit_isolation(h):
    """history: fit model A, then model B built from a fresh description; B untouched by A's fit, and B's own fit
    fits every one of B's dependence functions"""
    P = shim.mod("predefined")
    vc = shim.virocon()
    g = getattr(P, h.cfg["getter"])
    A, B = g(), g()
    mA, mB = vc.GlobalHierarchicalModel(A[0]), vc.GlobalHierarchicalModel(B[0])
    data = _toy_data(h.cfg["getter"])
    if "transform" in (A[3] if len(A) > 3 else {}):
        pass
    if h.sym:
        stubs.install_fit()
    beforeB = snapshot(mB)
    with stubs.optimizer_stubs(h) as log, warnings.catch_warnings():
        warnings.simplefilter("ignore")
        mA.fit(data, A[1])
        nA = len(log.calls)
        afterA_B = snapshot(mB)
        snapA = snapshot(mA)
        mB.fit(data, B[1])
        nB = len(log.calls) - nA
        callsB = log.calls[nA:]
    h.reach()
    ch = diff(beforeB, afterA_B)
    h.check(not ch, "fitting-A-leaves-B-unchanged", "; ".join(ch[:3]))
    ch = diff(snapA, snapshot(mA))
    h.check(not ch, "fitting-B-leaves-A-unchanged", "; ".join(ch[:3]))
    h.check(nA == nB and nA > 0, "B-is-fitted-exactly-like-A", f"{nA} vs {nB} dependence fits")
    # every dependence function of B holds the result of a fit made during B's fit
    for i, d in enumerate(mB.distributions):
        for pname, dep in getattr(d, "conditional_parameters", {}).items():
            mine = [c for c in callsB if c["f"] is dep]
            h.check(len(mine) >= 1, "every-dependence-function-of-B-fitted", f"dim {i} {pname}")
            if mine:
                h.close(list(dep.parameters.values()), list(np.ravel(npx.deep_strip(mine[-1]["popt"]))),
                        "B-holds-its-own-last-fit")
    # the template of a conditional distribution keeps its own parameters
    for d in mB.distributions:
        if hasattr(d, "distribution"):
            t = d.distribution
            fresh = type(t)(**{f"f_{k}": getattr(t, f"f_{k}") for k in t.parameters if getattr(t, f"f_{k}", None) is not None})
            h.check(snapshot(t.parameters) == snapshot(fresh.parameters), "template-parameters-unchanged-by-fit")


def obligations(tier):
    rots = (0, 2) if tier == "quick" else range(7)
    for st in (structures(2) + (structures(3)[3:5] if tier == "quick" else structures(3))):
        for rot in rots:
            for op in OPS:
                if op in ("direct_sampling", "and", "or", "design_conditions", "design_steps", "plot", "plot_swap", "save", "ew_pdf") and (len(st) != 2 or rot != rots[0] or st != structures(2)[1]):
                    continue
                if op == "hdc" and (len(st) > 2 and rot != 0):
                    continue
                if op == "cond_eval" and st[-1] is None:
                    continue
                yield ("frame", h_frame, {"struct": skey(st), "rot": rot, "op": op}, {"validate": True, "max_paths": 5000})
                if op == "design_steps":
                    yield ("frame", h_frame, {"struct": skey(st), "rot": rot, "op": op, "swap": True},
                           {"validate": True, "max_paths": 5000})
                if op in ("direct_sampling", "and", "or"):
                    yield ("frame", h_frame, {"struct": skey(st), "rot": rot, "op": op, "layout": "F"},
                           {"validate": True, "max_paths": 5000})
    for g in GETTERS:
        yield ("getters", h_getters, {"getter": g}, {})
        yield ("fit_isolation", h_fit_isolation, {"getter": g}, {})
