"""C09 - joint fitting is order-invariant and fits each interval to exactly its own data (dataflow)."""

from __future__ import annotations

import numpy as np

from .. import sym, shim, stubs, npx
from .families import FAMILIES

PROPERTY = "C09"
LEVEL_TEXT = ("bounded symbolic execution of GlobalHierarchicalModel.fit, _split_in_intervals, _check_and_fill_fit_desc, "
              "ConditionalDistribution.fit and the three slicers on a data matrix of symbolic reals in arbitrary order "
              "(all orderings forked), with the per-interval estimator and curve_fit replaced by recording stubs: "
              "decides that every interval is fitted to exactly the observations whose conditioning value lies in it, "
              "for the rows and for a permutation of the rows, with each dimension's own method/weights, and that a "
              "re-fit repeats the same calls; permutation-invariance of scipy's optimisers themselves is not decided")
FUNCTIONS = [
    "jointmodels.GlobalHierarchicalModel.fit", "jointmodels.GlobalHierarchicalModel._split_in_intervals",
    "jointmodels.GlobalHierarchicalModel._check_and_fill_fit_desc", "distributions.ConditionalDistribution.fit",
    "distributions.Distribution.fit", "intervals.IntervalSlicer.slice_", "intervals.WidthOfIntervalSlicer._slice",
    "intervals.NumberOfIntervalsSlicer._slice", "intervals.PointsPerIntervalSlicer._slice",
    "dependencies.DependenceFunction.fit",
]
BOUNDS = {
    "quick": "data matrices of 4 rows (2-D) and 3 rows (3-D), all values symbolic in arbitrary order, three row "
             "permutations (reverse, rotate, swap); three slicers (width 1 on [0,3], 2 equal intervals, 2 points per "
             "interval); 2-D and 3-D chains; different fit options per dimension; fit followed by re-fit",
    "thorough": "5 rows in 2-D, 4 rows in 3-D, every permutation for 3 rows",
}
OUTSIDE = [
    "permutation-invariance of scipy's optimisers themselves (summation order): the estimator stub depends on the "
    "multiset of its data only - that is its contract here",
    "interval-edge rounding (Real mode; C10 decides the edges in IEEE arithmetic)",
    "data matrices of 300..20000 rows: the slicing and fitting code is vectorised over rows",
]
ASSUMPTIONS = ["per-interval estimator stub: records (data multiset, method, weights), sets arbitrary estimates",
               "curve_fit stub (vf/stubs.py)"]


def _slicer(kind):
    I = shim.mod("intervals")
    if kind == "width":
        return I.WidthOfIntervalSlicer(1.0, value_range=(0, 2.5), min_n_points=1, min_n_intervals=1)
    if kind == "number":
        return I.NumberOfIntervalsSlicer(2, value_range=(0.0, 3.0), min_n_points=1, min_n_intervals=1)
    return I.PointsPerIntervalSlicer(2, min_n_points=1, min_n_intervals=1, reference=(lambda a: a.sum() / len(a)))


def _inside(kind, k, K, lo, hi, v):
    closed = (kind == "number" and k == K - 1) or kind == "points"
    if isinstance(v, sym.SR) or isinstance(lo, sym.SR) or isinstance(hi, sym.SR):
        return sym.And(v >= lo, v <= hi) if closed else sym.And(v >= lo, v < hi)
    return (lo <= v <= hi) if closed else (lo <= v < hi)


def _descs(nd, kind, chain):
    DF = shim.mod("dependencies").DependenceFunction

    def lin(x, a=1.0, b=0.5):
        return a + b * x

    descs = [{"distribution": FAMILIES["Weibull"].make(), "intervals": _slicer(kind)}]
    fams = ["LogNormal", "Normal"]
    for i in range(1, nd):
        fam = FAMILIES[fams[(i - 1) % 2]]
        cond = (i - 1) if chain == "chain" else 0
        d = {"distribution": fam.make(), "conditional_on": cond,
             "parameters": {p: DF(lin) for p in fam.params}, "intervals": _slicer(kind)}
        descs.append(d)
    return descs


class FitRecorder:
    def __init__(self, h, tag):
        self.h = h
        self.tag = tag
        self.calls = []

    def install(self):
        D = shim.mod("distributions")
        rec = self

        def fit(self_, data, method="mle", weights=None):
            k = len(rec.calls)
            est = {}
            for p in self_.parameters:
                v = rec.h.real(f"est{rec.tag}{k}_{p}", 0.3, 3.0)
                setattr(self_, p, v)
                est[p] = v
            rec.calls.append({"cls": type(self_).__name__, "obj": self_, "data": data, "method": method,
                              "weights": weights, "est": est})

        return stubs.patch_attr(D.Distribution, "fit", fit)


def _names(arr):
    """multiset of the symbolic observations in an array, as sorted identifiers"""
    out = []
    for e in np.ravel(npx.deep_strip(arr)):
        out.append(str(e.t) if isinstance(e, sym.SR) else repr(float(e)))
    return sorted(out)


def h_fit(h):
    vc = shim.virocon()
    nd, kind, chain, perm_kind = h.cfg["n_dim"], h.cfg["slicer"], h.cfg["chain"], h.cfg["perm"]
    N = h.cfg["rows"]
    rows = [[h.real(f"d{r}_{c}", 0.05, 2.95) for c in range(nd)] for r in range(N)]
    if kind == "points":
        for c in range(nd):
            h.distinct([rows[r][c] for r in range(N)], 0.01)
    perm = {"reverse": list(range(N))[::-1], "rotate": list(range(1, N)) + [0],
            "swap": [1, 0] + list(range(2, N))}[perm_kind]
    omit = h.cfg.get("fd") == "omit"
    if omit:
        # a description that omits the optional 'weights' key directly after one that sets it: the omitted key means
        # None for that dimension, not the neighbour's value
        fit_descs = lambda: [{"method": "mle", "weights": "w0"}] + [
            ({"method": "wlsq"} if i % 2 else {"method": "mle", "weights": f"w{i}"}) for i in range(1, nd)]
        want_opts = lambda i: ("mle", "w0") if i == 0 else (("wlsq", None) if i % 2 else ("mle", f"w{i}"))
    else:
        fit_descs = lambda: [{"method": "mle"}] + [{"method": "wlsq", "weights": f"w{i}"} if i % 2 else None for i in range(1, nd)]
        want_opts = lambda i: ("mle", None) if i == 0 else (("wlsq", f"w{i}") if i % 2 else ("mle", None))
    def digest(run):
        """what was fitted to what, independent of row order"""
        out = []
        m = run["model"]
        calls = list(run["calls"])
        h.check(calls[0]["cls"] == "WeibullDistribution" and _names(calls[0]["data"]) == _names([r[0] for r in rows]),
                "marginal-fitted-to-its-whole-column")
        h.check((calls[0]["method"], calls[0]["weights"]) == want_opts(0), "own-fit-options-dimension-0")
        pos = 1
        for i in range(1, nd):
            cd = m.distributions[i]
            K = len(cd.data_intervals)
            cond = m.conditional_on[i]
            per = []
            for k in range(K):
                c = calls[pos + k]
                want_m, want_w = want_opts(i)
                h.check(c["method"] == want_m and c["weights"] == want_w, "fit-options-of-dimension-i-reach-dimension-i-only",
                        f"dim {i}: {c['method']}, {c['weights']}")
                h.check(c["data"] is cd.data_intervals[k], "estimator-gets-the-interval-data")
                h.check(c["obj"] is cd.distributions_per_interval[k] and c["obj"] is not cd.distribution,
                        "interval-fitted-on-a-copy-of-the-template")
                lo, hi = cd.conditioning_interval_boundaries[k]
                # membership by the reported boundaries, for every row
                members = []
                for r in range(N):
                    inside = _inside(kind, k, K, lo, hi, rows[r][cond])
                    isin = bool(inside)
                    if isin:
                        members.append(rows[r][i])
                h.check(_names(cd.data_intervals[k]) == _names(members),
                        "interval-data-are-exactly-the-observations-with-conditioning-value-in-the-interval",
                        f"dim {i} interval {k}")
                per.append((_names(cd.data_intervals[k]), cd.conditioning_values[k], c["est"]))
            pos += K
            # dependence functions are fitted to (reference, estimate) pairs
            for pname, dep in cd.conditional_parameters.items():
                mine = [o for o in run["opt"] if o["f"] is dep]
                h.check(len(mine) == 1, "each-dependence-function-fitted-once")
                if mine:
                    h.close(list(np.ravel(npx.deep_strip(mine[0]["x"]))), [p[1] for p in per], "dependence-fit-x-are-the-references")
                    h.close(list(mine[0]["y"]), [p[2][pname] for p in per], "dependence-fit-y-are-the-interval-estimates")
            out.append(per)
        h.check(pos == len(calls), "no-further-estimator-calls")
        return out

    runs = []
    for tag, order in (("A", list(range(N))), ("B", perm), ("A-refit", list(range(N)))):
        data = h.arr([rows[r] for r in order])
        if tag == "A-refit":
            model = runs[0]["model"]
        else:
            model = vc.GlobalHierarchicalModel(_descs(nd, kind, chain))
        rec = FitRecorder(h, tag)
        fd = fit_descs()
        with rec.install(), stubs.optimizer_stubs(h) as opt:
            model.fit(data if h.cfg.get("as_array", True) else [list(rr) for rr in npx.deep_strip(data)], fd)
        runs.append({"tag": tag, "model": model, "calls": rec.calls, "opt": opt.calls, "order": order})
        runs[-1]["digest"] = digest(runs[-1])   # right away: a re-fit replaces the model's per-interval state
    h.reach()

    dA, dB, dR = runs[0]["digest"], runs[1]["digest"], runs[2]["digest"]
    for name, other in (("row-order", dB), ("re-fit", dR)):
        for i in range(len(dA)):
            h.check(len(dA[i]) == len(other[i]), f"same-intervals-whatever-the-{name}")
            for k in range(min(len(dA[i]), len(other[i]))):
                h.check(dA[i][k][0] == other[i][k][0], f"same-interval-data-whatever-the-{name}",
                        f"{dA[i][k][0]} vs {other[i][k][0]}")
                h.close(dA[i][k][1], other[i][k][1], f"same-references-whatever-the-{name}")


def h_refit_other_data(h):
    """history: a model that has been fitted to A and is then fitted to B ends up like a fresh model fitted to B
    (intervals, their data, references and boundaries), also with the default data-derived value range"""
    vc = shim.virocon()
    I = shim.mod("intervals")
    DF = shim.mod("dependencies").DependenceFunction
    N = h.cfg["rows"]
    kind = h.cfg["slicer"]

    def lin(x, a=1.0, b=0.5):
        return a + b * x

    def make():
        if kind == "number_default":
            sl = I.NumberOfIntervalsSlicer(2, min_n_points=1)          # value_range=None: derived from the data
        elif kind == "width_default":
            sl = I.WidthOfIntervalSlicer(1.0, min_n_points=1, min_n_intervals=1)
        else:
            sl = I.PointsPerIntervalSlicer(2, min_n_points=1, min_n_intervals=1, reference=(lambda a: a.sum() / len(a)))
        fam = FAMILIES["LogNormal"]
        descs = [{"distribution": FAMILIES["Weibull"].make(), "intervals": sl},
                 {"distribution": fam.make(), "conditional_on": 0, "parameters": {p: DF(lin) for p in fam.params}}]
        return vc.GlobalHierarchicalModel(descs)

    rowsA = [[h.real(f"a{r}_0", 0.05, 2.95), h.real(f"a{r}_1", 0.05, 2.95)] for r in range(N)]
    rowsB = [[h.real(f"b{r}_0", 0.05, 5.95), h.real(f"b{r}_1", 0.05, 5.95)] for r in range(N)]
    for rows in (rowsA, rowsB):          # ascending first column: the order of rows is the other harness's subject
        for r in range(N - 1):
            h.assume(rows[r + 1][0] - rows[r][0] >= 0.011)
    used, fresh = make(), make()
    out = []
    for tag, model, rows in (("A", used, rowsA), ("AB", used, rowsB), ("B", fresh, rowsB)):
        rec = FitRecorder(h, tag)
        with rec.install(), stubs.optimizer_stubs(h):
            model.fit(h.arr(rows))
        cd = model.distributions[1]
        out.append({"data": [_names(d) for d in cd.data_intervals], "refs": list(np.ravel(npx.deep_strip(cd.conditioning_values))),
                    "bounds": [tuple(b) for b in cd.conditioning_interval_boundaries]})
    h.reach()
    ab, b = out[1], out[2]
    h.check(len(ab["data"]) == len(b["data"]), "re-fit-has-the-intervals-of-a-fresh-fit", f"{len(ab['data'])} vs {len(b['data'])}")
    for k in range(min(len(ab["data"]), len(b["data"]))):
        h.check(ab["data"][k] == b["data"][k], "re-fit-interval-data-as-in-a-fresh-fit", f"{ab['data'][k]} vs {b['data'][k]}")
        h.close(ab["refs"][k], b["refs"][k], "re-fit-references-as-in-a-fresh-fit")
        h.close(list(ab["bounds"][k]), list(b["bounds"][k]), "re-fit-boundaries-as-in-a-fresh-fit")


def h_refit_nested(h):
    """history: a model whose dependence functions are nested (mu uses sigma's function) is fitted to A and then
    re-fitted to B: after the re-fit every dependence function holds a fit to B's pairs made after the re-fit of the
    functions it uses"""
    vc = shim.virocon()
    DF = shim.mod("dependencies").DependenceFunction
    N = h.cfg["rows"]

    def lin(x, a=1.0, b=0.5):
        return a + b * x

    def nested(x, a=1.0, b=0.5, other=None):
        return a + b * other(x)

    order = h.cfg["order"]
    if h.cfg.get("link", "mu-uses-sigma") == "mu-uses-sigma":
        sig = DF(lin)
        mu = DF(nested, other=sig)
        plan = (("sigma", sig, None), ("mu", mu, sig))
    else:
        # the dependent parameter comes AFTER the one it uses in the distribution's own parameter order
        mu = DF(lin)
        sig = DF(nested, other=mu)
        plan = (("mu", mu, None), ("sigma", sig, mu))
    params = {"mu": mu, "sigma": sig} if order == "dependent-first" else {"sigma": sig, "mu": mu}
    descs = [{"distribution": FAMILIES["Weibull"].make(), "intervals": _slicer("width")},
             {"distribution": FAMILIES["LogNormal"].make(), "conditional_on": 0, "parameters": params}]
    model = vc.GlobalHierarchicalModel(descs)
    rowsA = [[0.5 + k, h.real(f"a{k}", 0.1, 2.9)] for k in range(N)]
    rowsB = [[0.5 + k, h.real(f"b{k}", 0.1, 2.9)] for k in range(N)]
    out = []
    for tag, rows in (("A", rowsA), ("B", rowsB)):
        rec = FitRecorder(h, tag)
        with rec.install(), stubs.optimizer_stubs(h) as opt:
            model.fit(h.arr(rows))
        out.append((rec.calls, list(opt.calls)))
    h.reach()
    callsB, optB = out[1]
    cd = model.distributions[1]
    estB = [c["est"] for c in callsB[1:]]
    for tagx, (calls_x, opt_x) in (("first fit", out[0]),):
        est_x = [c["est"] for c in calls_x[1:]]
        for pname, dep, uses in plan:
            mine = [k for k, o in enumerate(opt_x) if o["f"] is dep]
            h.check(len(mine) >= 1, "first-fit-fits-every-dependence-function", pname)
            if mine:
                h.close(list(opt_x[mine[-1]]["y"]), [e[pname] for e in est_x], "first-fit-uses-the-interval-estimates")
    for pname, dep, uses in plan:
        mine = [k for k, o in enumerate(optB) if o["f"] is dep]
        h.check(len(mine) >= 1, "re-fit-fits-every-dependence-function-again", pname)
        if not mine:
            continue
        last = optB[mine[-1]]
        h.close(list(dep.parameters.values()), list(np.ravel(npx.deep_strip(last["popt"]))),
                "parameters-are-the-last-fit-of-the-re-fit")
        h.close(list(last["y"]), [e[pname] for e in estB], "fitted-to-the-new-interval-estimates")
        if uses is not None:
            theirs = [k for k, o in enumerate(optB) if o["f"] is uses]
            h.check(bool(theirs) and mine[-1] > theirs[-1], "dependent-re-fitted-after-the-function-it-uses",
                    f"{pname}: calls {mine} vs {theirs}")


def obligations(tier):
    for kind in ("number_default", "width_default", "points"):
        yield ("refit_other_data", h_refit_other_data, {"slicer": kind, "rows": 3}, {"max_paths": 30000})
    for order in ("dependent-first", "conditioner-first"):
        for link in ("mu-uses-sigma", "sigma-uses-mu"):
            yield ("refit_nested", h_refit_nested, {"rows": 3, "order": order, "link": link}, {})
    for kind in ("width", "number", "points"):
        for perm in ("reverse", "rotate", "swap"):
            yield ("fit", h_fit, {"n_dim": 2, "slicer": kind, "chain": "chain", "perm": perm,
                                  "rows": 4 if tier == "quick" else 5}, {"max_paths": 60000})
        for chain in ("chain", "star"):
            yield ("fit", h_fit, {"n_dim": 3, "slicer": kind, "chain": chain, "perm": "reverse",
                                  "rows": 3 if tier == "quick" else 4}, {"max_paths": 60000})
    for nd_ in (2, 3):
        yield ("fit", h_fit, {"n_dim": nd_, "slicer": "width", "chain": "chain", "perm": "swap", "rows": 3, "fd": "omit"},
               {"max_paths": 60000})
