"""C11 - fixed parameters are honoured at construction, in evaluation and through fitting."""

from __future__ import annotations

import numpy as np

from .. import sym, shim, stubs
from .families import FAMILIES, SHIPPED, subsets, declare_params
from .c05 import expected
from . import c08, c12

PROPERTY = "C11"
FUNCTIONS = [
    "distributions.WeibullDistribution.__init__", "distributions.WeibullDistribution._fit_mle",
    "distributions.LogNormalDistribution.__init__", "distributions.LogNormalDistribution._fit_mle",
    "distributions.NormalDistribution.__init__", "distributions.NormalDistribution._fit_mle",
    "distributions.LogNormalNormFitDistribution.__init__", "distributions.LogNormalNormFitDistribution._fit_mle",
    "distributions.ExponentiatedWeibullDistribution.__init__", "distributions.ExponentiatedWeibullDistribution._fit_mle",
    "distributions.ExponentiatedWeibullDistribution._fit_lsq",
    "distributions.GeneralizedGammaDistribution.__init__", "distributions.GeneralizedGammaDistribution._fit_mle",
    "distributions.VonMisesDistribution.__init__", "distributions.VonMisesDistribution._fit_mle",
    "distributions.ScipyDistribution.__init__", "distributions.ScipyDistribution._fit_mle",
    "distributions.Distribution.fit", "distributions.ConditionalDistribution._get_param_values",
]
BOUNDS = {
    "quick": "9 families x every subset of parameters fixed (construction/evaluation) and every non-empty proper "
             "subset (MLE fit through the scipy.fit contract stub); fixed values, start values, data (5 points) symbolic",
    "thorough": "as quick, data of 6 points, least-squares path with 4 data points (all sort orders), both "
                "method spellings",
}
OUTSIDE = [
    "the 1e-12 relative round-off clause (Real mode decides exact equality)",
    "estimation quality of the free parameters (scipy optimiser output is an arbitrary symbol)",
    "data from 'other families': data are arbitrary symbolic reals, no distributional assumption is used",
]
ASSUMPTIONS = [
    "scipy.stats.<family>.fit contract stub (keyword validation as in scipy 1.14; a fixed parameter is returned "
    "unchanged; free estimates arbitrary) - vf/stubs.py",
    "reference mapping table vf/props/families.py",
]


TINY = {"Weibull": "gamma", "LogNormal": "mu", "Normal": "mu", "VonMises": "mu", "ScipyWeibullMin": "loc",
        "ScipyGamma": "loc"}


def _mk(h, fam, S):
    fixed = declare_params(h, fam, "f_", names=S)
    if h.cfg.get("tiny"):
        # a fixed location-like parameter of small magnitude (1e-5): "still that value to 1e-12 relative" is then a
        # statement about absolute round-off of 1e-17 - decided by the concrete run on the real libraries
        fixed[TINY[h.cfg["family"]]] = 1e-5
    start = declare_params(h, fam, "s_", names=[p for p in fam.params if p not in S])
    for p in S:
        lo, hi = fam.ranges[p]
    kw = {f"f_{p}": v for p, v in fixed.items()}
    kw.update(start)
    d = fam.make(**kw)
    theta = dict(start)
    theta.update(fixed)
    return d, fixed, start, theta


def h_construct(h):
    fam = FAMILIES[h.cfg["family"]]
    S = tuple(p for p in h.cfg["fixed"].split("+") if p)
    if h.cfg.get("also_plain"):
        # documented: "If this parameter is set, <name> is ignored": f_<name> wins over <name>, in any keyword order
        fixed = declare_params(h, fam, "f_", names=S)
        plain = declare_params(h, fam, "s_")
        for p in S:
            h.distinct([fixed[p], plain[p]], 0.25)
        kw = {}
        if h.cfg["also_plain"] == "f-first":
            kw.update({f"f_{p}": v for p, v in fixed.items()})
            kw.update(plain)
        else:
            kw.update(plain)
            kw.update({f"f_{p}": v for p, v in fixed.items()})
        d = fam.make(**kw)
        theta = dict(plain)
        theta.update(fixed)
        start = plain
    else:
        d, fixed, start, theta = _mk(h, fam, S)
    h.reach()
    for p in fam.params:
        h.close(d.parameters[p], theta[p], "value-from-construction")
    for p in S:
        h.close(getattr(d, f"f_{p}"), fixed[p], "f_attribute")
    x = h.real("x0", 0.2, 6.0)
    for m in ("cdf", "pdf"):
        h.close(getattr(d, m)(x), expected(h, fam, m, x, theta), "used-by-evaluation")
    pr = h.real("p0", 0.05, 0.95)
    h.close(d.icdf(pr), expected(h, fam, "icdf", pr, theta), "used-by-evaluation")


def h_fit_mle(h):
    fam = FAMILIES[h.cfg["family"]]
    S = tuple(p for p in h.cfg["fixed"].split("+") if p)
    d, fixed, start, theta = _mk(h, fam, S)
    data = h.reals("d", h.cfg["n"], 2.5, 8.0)  # inside the support for every admissible location
    if h.sym:
        stubs.install_fit()
        d.fit(data, h.cfg.get("method", "mle"))
        log = stubs.FIT_LOG
    else:
        with stubs.record_real_fit(fam.scipy) as log:
            d.fit(data, h.cfg.get("method", "mle"))
    h.reach()
    for p in S:
        h.close(d.parameters[p], fixed[p], "fixed-after-fit", rtol=1e-12, atol=0.0)
    if fam.cls == "LogNormalNormFitDistribution":
        return
    if len(log) == 0 and fam.cls in ("NormalDistribution", "LogNormalDistribution"):
        # a closed-form estimator (these two families have one): the free parameters are judged by C12's
        # closed-form clause, the fixed ones above
        c12._closed_form(h, fam, d, theta, S, data)
        return
    h.check(len(log) == 1, "scipy-fit-called-once")
    if h.sym:
        h.check(log[0]["family"] == fam.scipy, "fitted-family")
        h.check(log[0]["data"] is data, "fitted-on-the-data")
    # free parameters are the optimiser's results, in the right slots (round trip through the documented mapping)
    back = fam.ref(d.parameters)
    res = log[0]["result"]
    h.check(len(back) == len(res), "result-arity")
    deps = c12.slot_deps(fam)
    for i in range(len(res)):
        if deps[i] and deps[i] <= set(S):
            continue        # a fixed slot: judged by fixed-after-fit above (scipy may echo it differently, e.g. wrapped)
        h.close(back[i], res[i], "free-parameters-are-the-estimates", rtol=1e-9)


def h_lsq_fixed_delta(h):
    """least squares with delta fixed keeps delta and estimates alpha and beta; other fixed sets are unsupported"""
    fam = FAMILIES["ExpWeibull"]
    S = tuple(p for p in h.cfg["fixed"].split("+") if p)
    d, fixed, start, theta = _mk(h, fam, S)
    # the data are concrete here (what is decided is the fate of the fixed value, for every fixed value);
    # the regression itself over symbolic data is C13's subject
    data = np.array([0.7, 2.9, 1.3, 0.0, 4.1, 2.2, 1.3][: h.cfg["n"]])
    if S == ("delta",):
        d.fit(data, h.cfg["method"], h.cfg["weights"])
        h.reach()
        h.close(d.delta, fixed["delta"], "fixed-after-fit")
        h.close(d.parameters["delta"], fixed["delta"], "fixed-after-fit")
        xs = np.sort(data)
        n = len(xs)
        p = (np.arange(1, n + 1) - 0.5) / n
        # alpha and beta were (re-)estimated: they equal the estimator's output for this delta, not the start values
        if h.sym:
            h.check(d.alpha is not start["alpha"] and d.beta is not start["beta"], "free-parameters-estimated")
        else:
            h.check(np.isfinite(d.alpha) and np.isfinite(d.beta), "free-parameters-estimated")
    else:
        h.raises(lambda: d.fit(data, h.cfg["method"], h.cfg["weights"]), (NotImplementedError,),
                 "unsupported-fixed-set-rejected")


def obligations(tier):
    n = 5 if tier == "quick" else 6
    for fname, fam in FAMILIES.items():
        for S in subsets(fam.params):
            yield ("construct", h_construct, {"family": fname, "fixed": "+".join(S)}, {})
            if S:
                for order in ("f-first", "f-last"):
                    yield ("construct", h_construct, {"family": fname, "fixed": "+".join(S), "also_plain": order}, {})
            if 0 < len(S) < len(fam.params):
                yield ("fit_mle", h_fit_mle, {"family": fname, "fixed": "+".join(S), "n": n}, {})
                if tier == "thorough":
                    yield ("fit_mle", h_fit_mle, {"family": fname, "fixed": "+".join(S), "n": n, "method": "MLE"}, {})
    for fname, pname in TINY.items():
        yield ("fit_mle", h_fit_mle, {"family": fname, "fixed": pname, "n": n, "tiny": True}, {})
    nl = 5 if tier == "quick" else 7
    for S in subsets(FAMILIES["ExpWeibull"].params):
        if not S or len(S) == 3:
            continue
        for method in (("wlsq",) if tier == "quick" else ("lsq", "wlsq")):
            for w in (("quadratic",) if tier == "quick" else (None, "linear", "quadratic")):
                yield ("lsq_fixed", h_lsq_fixed_delta,
                       {"fixed": "+".join(S), "method": method, "weights": w, "n": nl}, {})
    # history: a fit with fixed parameters must not leak into the next fit of another instance
    for fname, fam in FAMILIES.items():
        if fname == "LogNormalNormFit":
            continue
        proper = [S for S in subsets(fam.params) if len(S) < len(fam.params)]
        for SA in proper:
            for SB in proper:
                if SA and SA != SB and (tier == "thorough" or len(SB) <= 1):
                    yield ("sequence", c12.h_sequence,
                           {"family": fname, "fixedA": "+".join(SA), "fixedB": "+".join(SB), "n": 3}, {})
    # conditional distributions: a fixed parameter has the same value for every conditioning value (C08 harness)
    for fname in SHIPPED:
        fam = FAMILIES[fname]
        for dep in subsets(fam.params):
            if 0 < len(dep) < len(fam.params) and not (fname == "LogNormalNormFit"):
                for gk in ("vec2", "int", "intvec"):
                    yield ("conditional_fixed", c08.h_conditional,
                           {"family": fname, "dependent": "+".join(dep), "method": "cdf", "given": gk,
                            "shape": "linear"}, {})
