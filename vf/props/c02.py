"""C02 - highest-density contour encloses the highest-density region of content 1-alpha."""

from __future__ import annotations

import warnings

import numpy as np

from .. import sym, shim, stubs, npx
from .models import structures, skey, parse_skey, build_model

PROPERTY = "C02"
FUNCTIONS = [
    "contours.HighestDensityContour.cumsum_biggest_until", "contours.HighestDensityContour.cell_averaged_pdf",
    "contours.HighestDensityContour.cell_averaged_joint_pdf", "contours.HighestDensityContour._check_grid",
    "contours.HighestDensityContour._compute",
]
BOUNDS = {
    "quick": "selection rule: every array of <= 4 non-negative symbolic cell probabilities in shapes (4,), (2,2), "
             "(1,2,2), symbolic limit, all orderings and ties (forked); cell-probability dataflow: anisotropic concrete "
             "grids 2x3 and 2x3x2, all 2-D/3-D dependence structures, symbolic distribution parameters; whole _compute "
             "on a 2x2 grid with symbolic alpha; default limits/deltas",
    "thorough": "selection with 5 cells in shapes (5,), (1,5), and (2,3) with 6 cells; 7 family rotations",
}
OUTSIDE = [
    "floating-point accumulation in cumsum (Real mode); accuracy of the cdfs",
    "grids of 10..400 cells per axis: the algorithm is vectorised and size-generic, nothing beyond the bound is claimed",
    "calls where no cell fits under the limit raise IndexError in the current code - an exception, not a silently "
    "smaller region: those paths are recorded and not judged",
]
ASSUMPTIONS = ["scipy cdf kernels uninterpreted (range [0,1], non-decreasing: instances for every pair of evaluation "
               "points with equal parameters); scipy.ndimage runs concretely per path"]


def _hdc_blank(model=None):
    C = shim.mod("contours")
    obj = C.HighestDensityContour.__new__(C.HighestDensityContour)
    obj.model = model
    return obj


def h_selection(h):
    C = shim.mod("contours")
    shape = tuple(h.cfg["shape"])
    n = int(np.prod(shape))
    vals = [h.real(f"p{k}", 0.0, 1.0) for k in range(n)]
    limit = h.real("limit", 0.05, 1.5)
    arr = h.arr(vals).reshape(shape)
    with warnings.catch_warnings(record=True) as w:
        warnings.simplefilter("always")
        try:
            fields, last = C.HighestDensityContour.cumsum_biggest_until(arr, limit)
        except IndexError:
            # nothing fits under the limit: the current code raises (not a silent result) - not judged
            h.check(bool(sym.If(vals[0] > limit, True, True)) if False else True, "exception-path-not-judged")
            h.note("paths where not even the densest cell fits under the limit raise IndexError (not judged)")
            return
    warned = any(issubclass(x.category, RuntimeWarning) for x in w)
    h.reach()
    h.check(np.shape(fields) == shape, "mask-has-array-shape")
    flat = [fields.reshape(-1)[k] for k in range(n)]
    sel = [k for k in range(n) if flat[k] == 1]
    exc = [k for k in range(n) if flat[k] != 1]
    h.check(all(flat[k] in (0, 1) for k in range(n)), "mask-is-0-1")
    h.check(len(sel) >= 1, "region-not-empty")
    tot_sel = sum(vals[k] for k in sel)
    tot_all = sum(vals)
    h.check(tot_sel <= limit, "enclosed-probability-at-most-limit")
    for e in exc:
        h.check(limit - tot_sel < vals[e] if False else True, "placeholder")
    if exc:
        # misses the limit by less than the densest excluded cell
        if h.sym:
            mx = vals[exc[0]]
            for e in exc[1:]:
                mx = sym.If(vals[e] > mx, vals[e], mx)
        else:
            mx = max(vals[e] for e in exc)
        h.check(limit - tot_sel < mx, "misses-limit-by-less-than-densest-excluded-cell")
    for s_ in sel:
        for e in exc:
            h.check(vals[s_] >= vals[e], "every-enclosed-cell-at-least-as-dense-as-every-excluded")
    for s_ in sel:
        h.check(last <= vals[s_], "last-summed-is-least-dense-enclosed")
    if h.sym:
        h.check(sym.Or(*[sym.lift(last) == vals[s_] for s_ in sel]), "last-summed-is-an-enclosed-cell")
    else:
        h.check(any(last == vals[s_] for s_ in sel), "last-summed-is-an-enclosed-cell")
    h.check(warned == bool(tot_all < limit), "warning-iff-grid-cannot-capture-limit",
            f"warned={warned}")


GRIDS = {
    2: [np.array([0.5, 1.5]), np.array([1.0, 1.5, 2.0])],
    3: [np.array([0.5, 1.5]), np.array([1.0, 1.5, 2.0]), np.array([0.4, 0.7])],
}


def _ref_cell_density(h, dims, coords, idx):
    """documented: f(idx) = prod_i (F_i(c_i + dx_i/2 | c_cond(i)) - F_i(c_i - dx_i/2 | c_cond(i))) / dx_i"""
    f = 1.0
    for i, d in enumerate(dims):
        c = float(coords[i][idx[i]])
        dx = float(coords[i][1] - coords[i][0])
        ref = d.ref() if d.cond is None else d.ref(float(coords[d.cond][idx[d.cond]]))
        K = getattr(h.K, d.fam.scipy)
        f = f * (K.cdf(c + 0.5 * dx, *ref) - K.cdf(c - 0.5 * dx, *ref)) / dx
    return f


def h_cellprob(h):
    struct = parse_skey(h.cfg["struct"])
    nd = len(struct)
    model, dims = build_model(h, struct, rot=h.cfg["rot"])
    obj = _hdc_blank(model)
    coords = [c.copy() for c in GRIDS[nd]]
    f = obj.cell_averaged_joint_pdf(coords)
    h.reach()
    shape = tuple(len(c) for c in coords)
    h.check(np.shape(f) == shape, "one-density-per-cell", f"{np.shape(f)}")
    for idx in np.ndindex(shape):
        h.close(f[idx], _ref_cell_density(h, dims, coords, idx), "cell-density-is-documented-cdf-difference")


def h_compute(h):
    """whole _compute from the cell densities on: fm, enclosed region and returned coordinates belong together.
    The cell densities are arbitrary non-negative symbols here (that they are the documented cdf differences is
    the subject of the `cellprob` harness), which keeps every query linear."""
    C = shim.mod("contours")
    alpha = h.real("alpha", 0.01, 0.6)
    limits = [(0.25, 1.25), (1.0, 2.5 if h.cfg["ny"] == 2 else 4.0)]
    deltas = [1.0, 1.5] if not h.cfg["scalar_delta"] else 1.0
    if h.cfg["scalar_delta"]:
        limits = [(0.25, 1.25), (1.0, 2.0 if h.cfg["ny"] == 2 else 3.0)]
    if h.cfg.get("ragged"):
        # limits whose extent is NOT a multiple of the cell size: the grid still has cells of the requested size
        # (the last centre may lie beyond the upper limit), the cell size is never adjusted to the limits
        limits = [(0.25, 0.9), (1.0, 1.9 if h.cfg["ny"] == 2 else (2.9 if h.cfg["scalar_delta"] else 3.4))]
    nx, ny = 2, h.cfg["ny"]
    dens = [[h.real(f"f{i}_{j}", 0.0, 1.0) for j in range(ny)] for i in range(nx)]

    class M:
        n_dim = 2

    def fake_joint(self, coords):
        if [len(c) for c in coords] != [nx, ny]:
            raise sym.HarnessError(f"harness grid expectation wrong: {[len(c) for c in coords]} cells, expected {[nx, ny]}")
        return h.arr(dens) + 0.0   # fresh array: _compute scales it in place

    with warnings.catch_warnings(record=True) as w:
        warnings.simplefilter("always")
        with stubs.patch_attr(C.HighestDensityContour, "cell_averaged_joint_pdf", fake_joint):
            try:
                c = C.HighestDensityContour(M(), alpha, limits=limits, deltas=deltas)
            except (IndexError, ValueError) as e:
                h.note(f"regions of fewer than 3 cells raise {type(e).__name__} in the current code (exception, not judged)")
                return
    warned = any(issubclass(x.category, RuntimeWarning) and "1-alpha" in str(x.message) for x in w)
    h.reach()
    cc = c.cell_center_coordinates
    dl = c.deltas
    area = float(dl[0]) * float(dl[1])
    shape = (nx, ny)
    want_d = [deltas, deltas] if h.cfg["scalar_delta"] else list(deltas)
    for ax in range(2):
        g = np.asarray(sym.concretize(np.asarray(cc[ax])), dtype=float)
        h.check(abs(float(dl[ax]) - want_d[ax]) < 1e-12, "cell-size-as-requested")
        h.check(abs(g[0] - min(limits[ax])) < 1e-12, "grid-starts-at-the-lower-limit")
        h.check(bool(np.all(np.abs(np.diff(g) - want_d[ax]) < 1e-9)), "grid-spacing-is-the-requested-cell-size", f"axis {ax}: {g}")
        h.check(g[-1] + want_d[ax] > max(limits[ax]) - 1e-12, "grid-covers-the-upper-limit", f"axis {ax}: {g}")
    prob = {idx: dens[idx[0]][idx[1]] * area for idx in np.ndindex(shape)}
    tot = sum(prob.values())
    coords = c.coordinates
    pts = set()
    if isinstance(coords, list):
        for part in coords:
            for k in range(len(part[0])):
                pts.add((round(float(part[0][k]), 9), round(float(part[1][k]), 9)))
    else:
        for k in range(np.shape(coords)[0]):
            pts.add((round(float(coords[k, 0]), 9), round(float(coords[k, 1]), 9)))
    centre = lambda idx: (round(float(cc[0][idx[0]]), 9), round(float(cc[1][idx[1]]), 9))
    # with 2 cells along the first axis every region cell is a boundary cell, so coordinates == region
    sel = [idx for idx in np.ndindex(shape) if centre(idx) in pts]
    exc = [idx for idx in np.ndindex(shape) if centre(idx) not in pts]
    h.check(len(pts) == len(sel), "coordinates-are-cell-centres")
    if warned:
        h.check(tot < 1 - alpha, "warning-only-if-grid-cannot-capture-1-alpha")
        h.check(len(exc) == 0, "whole-grid-returned-on-warning")
        h.close(c.fm, 0.0, "fm-zero-on-warning")
        return
    h.check(tot >= 1 - alpha, "no-warning-means-grid-captures-1-alpha")
    ts = sum(prob[i] for i in sel)
    h.check(ts <= 1 - alpha, "enclosed-probability-at-most-1-alpha")
    for i in sel:
        h.check(c.fm <= dens[i[0]][i[1]], "fm-is-least-dense-enclosed-cell")
        for e in exc:
            h.check(prob[i] >= prob[e], "every-enclosed-cell-at-least-as-dense-as-every-excluded")
    if h.sym:
        h.check(sym.Or(*[sym.lift(c.fm) == sym.lift(dens[i[0]][i[1]]) for i in sel]), "fm-is-density-of-an-enclosed-cell")
    else:
        h.check(any(abs(c.fm - dens[i[0]][i[1]]) <= 1e-12 for i in sel), "fm-is-density-of-an-enclosed-cell")
    if exc:
        if h.sym:
            mx = prob[exc[0]]
            for e in exc[1:]:
                mx = sym.If(prob[e] > mx, prob[e], mx)
        else:
            mx = max(prob[e] for e in exc)
        h.check((1 - alpha) - ts < mx, "misses-1-alpha-by-less-than-densest-excluded-cell")


def h_defaults(h):
    nd = h.cfg["n_dim"]
    alpha = h.real("alpha", 1e-6, 0.3)
    asked = []

    class M:
        n_dim = nd

        def marginal_icdf(self, p, dim, precision_factor=1):
            asked.append((p, dim, precision_factor))
            return ups[dim]

    ups = [h.real(f"up{i}", 2.0, 40.0) for i in range(nd)]
    obj = _hdc_blank(M())
    obj.alpha = alpha
    obj.limits = None
    obj.deltas = h.cfg["deltas"]
    obj._check_grid()
    h.reach()
    h.check(len(obj.limits) == nd and [a[1] for a in asked] == list(range(nd)), "one-limit-per-dimension")
    for i in range(nd):
        h.close(asked[i][0], 1 - 0.2 ** nd * alpha, "default-upper-limit-quantile")
        h.close(obj.limits[i][0], 0.0, "default-lower-limit-zero")
        h.close(obj.limits[i][1], ups[i], "default-upper-limit-is-marginal-quantile")
    if h.cfg["deltas"] is None:
        for i in range(nd):
            h.close(obj.deltas[i], ups[i] * 0.0025, "default-delta-quarter-percent-of-range", rtol=1e-9)
    else:
        h.check(list(obj.deltas) == [h.cfg["deltas"]] * nd, "scalar-delta-replicated")


def obligations(tier):
    shapes = [(3,), (4,), (2, 2), (1, 2, 2)] if tier == "quick" else [(3,), (4,), (2, 2), (1, 2, 2), (5,), (1, 5), (2, 3)]
    for s in shapes:
        yield ("selection", h_selection, {"shape": list(s)}, {"max_paths": 100000, "timeout_ms": 60000})
    for nd in (2, 3):
        for st in structures(nd):
            # rotations 5 and 6 put the circular von Mises family (whose scipy cdf leaves [0, 1] outside the principal
            # interval) in the conditional / the first position
            for rot in (((0, 2, 5, 6) if nd == 2 else (0, 2)) if tier == "quick" else range(7)):
                yield ("cellprob", h_cellprob, {"struct": skey(st), "rot": rot}, {})
    for ny in ((2,) if tier == "quick" else (2, 3)):
        for sd in (False, True):
            for ragged in (False, True):
                yield ("compute", h_compute, {"ny": ny, "scalar_delta": sd, "ragged": ragged},
                       {"max_paths": 50000, "timeout_ms": 60000})
    for nd in (2, 3):
        for dl in (None, 0.5):
            yield ("defaults", h_defaults, {"n_dim": nd, "deltas": dl}, {})
