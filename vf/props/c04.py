"""C04 - AND/OR contour points have empirical exceedance alpha within allowed_error."""

from __future__ import annotations

import math
import types
import warnings

import numpy as np
import z3

from .. import sym, shim, astx, npx

PROPERTY = "C04"
FUNCTIONS = ["contours.AndContour._compute", "contours.OrContour._compute", "contours.AndContour.__init__",
             "contours.OrContour.__init__"]
BOUNDS = {
    "quick": "inductive step: the body of the ray-search while loop (extracted from the current source) executed once "
             "from an ARBITRARY symbolic state (rel_dist, rel_step_size, iteration counter 0..99, 4 symbolic sample "
             "points, alpha, marginal quantiles; 4 concrete ray angles) for AND and OR; whole _compute explored "
             "exhaustively for 3 symbolic sample points, one and two rays, all paths that leave the search within 3 "
             "iterations per ray; closure points; OR range filter",
    "thorough": "5 sample points in the step, 4 iterations and 4 points in the bounded exploration",
}
OUTSIDE = [
    "whether 100 iterations suffice for a given sample (that is what the documented warning is for)",
    "paths of the whole _compute that need more than the explored number of iterations: covered by the inductive step "
    "(each iteration preserves 'current_vector lies on the ray and current_pe is the exceedance of that same vector')",
    "Monte-Carlo error of the sample itself",
]
ASSUMPTIONS = ["Real mode; cos/sin of the concrete ray angles are numpy's doubles"]

CLS = {"and": "AndContour", "or": "OrContour"}


def _exceed(h, kind, xs, ys, vx, vy):
    n = len(xs)
    tot = 0
    for i in range(n):
        if kind == "and":
            c = sym.And(xs[i] > vx, ys[i] > vy) if h.sym else (xs[i] > vx and ys[i] > vy)
        else:
            c = sym.Or(xs[i] > vx, ys[i] > vy) if h.sym else (xs[i] > vx or ys[i] > vy)
        tot = tot + (sym.If(c, 1, 0) if h.sym else (1 if c else 0))
    return tot / n


def h_step(h):
    """one iteration of the search loop from an arbitrary state"""
    kind = h.cfg["kind"]
    C = shim.mod("contours")
    step = astx.loop_body(getattr(C, CLS[kind])._compute, "allowed_error")
    K = h.cfg["points"]
    xs = [h.real(f"x{i}", 0.0, 10.0) for i in range(K)]
    ys = [h.real(f"y{i}", 0.0, 10.0) for i in range(K)]
    alpha = h.real("alpha", 0.001, 0.9)
    theta = h.cfg["theta"]
    unity = np.empty((2, 1))
    unity[0] = np.cos(theta / 180 * np.pi)
    unity[1] = np.sin(theta / 180 * np.pi)
    rel_dist = h.real("rel_dist", 0.0, 3.0)
    rel_step = h.real("rel_step", 1e-6, 0.5)
    max_dist = h.real("max_distance", 0.5, 20.0)
    it = h.cfg["iteration"]
    ns = {"x": h.arr(xs), "y": h.arr(ys), "alpha": alpha, "unity_vector": unity, "rel_dist": rel_dist,
          "rel_step_size": rel_step, "max_distance": max_dist, "nr_iterations": it, "max_iterations": 100,
          "current_pe": h.real("pe_before", 0.0, 1.0), "allowed_error": h.real("allowed_error", 0.005, 0.2),
          "warnings": warnings, "theta": theta, "converged": True}
    with warnings.catch_warnings(record=True) as w:
        warnings.simplefilter("always")
        how = step(ns)
    warned = any(issubclass(m.category, UserWarning) and "precision" in str(m.message) for m in w)
    h.reach()
    cv = ns["current_vector"]
    vx, vy = cv[0][0] if np.ndim(cv[0]) else cv[0], cv[1][0] if np.ndim(cv[1]) else cv[1]
    h.close(vx, float(unity[0][0]) * (rel_dist * max_dist), "vector-on-the-ray-at-the-current-distance", rtol=1e-12)
    h.close(vy, float(unity[1][0]) * (rel_dist * max_dist), "vector-on-the-ray-at-the-current-distance", rtol=1e-12)
    pe = _exceed(h, kind, xs, ys, vx, vy)
    h.close(ns["current_pe"], pe, "pe-is-the-exceedance-fraction-of-that-same-vector")
    # search update
    if h.sym:
        up = sym.lift(pe) > alpha
        h.close(ns["rel_dist"], sym.If(up, rel_dist + rel_step, rel_dist - 0.5 * rel_step), "distance-update")
        h.close(ns["rel_step_size"], sym.If(up, rel_step, 0.5 * rel_step), "step-size-update")
    else:
        up = pe > alpha
        h.close(ns["rel_dist"], rel_dist + rel_step if up else rel_dist - 0.5 * rel_step, "distance-update")
        h.close(ns["rel_step_size"], rel_step if up else 0.5 * rel_step, "step-size-update")
    # the loop's own continuation test, evaluated in the post-state: the search goes on exactly while the exceedance
    # fraction differs from alpha by more than allowed_error * alpha
    cont = step.test(ns)
    ae = ns["allowed_error"]
    if h.sym:
        diff = sym.lift(pe) - alpha
        far = sym.Or(diff > ae * alpha, -diff > ae * alpha)
        cont_b = cont if isinstance(cont, sym.SB) else sym.SB(z3.BoolVal(bool(cont)))
        h.check(sym.Or(sym.And(cont_b, far), sym.And(sym.Not(cont_b), sym.Not(far))),
                "search-continues-iff-relative-error-exceeds-allowed_error")
    else:
        d = abs(pe - alpha)
        if abs(d - ae * alpha) > 1e-12:        # not on the rounding edge of the comparison
            h.check(bool(cont) == (d > ae * alpha), "search-continues-iff-relative-error-exceeds-allowed_error",
                    f"pe={pe} alpha={alpha} allowed_error={ae} continue={bool(cont)}")
    h.check(ns["nr_iterations"] == it + 1, "iteration-counted")
    last = (it + 1 == 100)
    h.check(warned == last, "precision-warning-exactly-when-the-iteration-limit-is-hit", f"warned={warned} at iteration {it + 1}")
    h.check((how == "break") == last, "search-stops-at-the-iteration-limit")


class _Model:
    n_dim = 2

    def __init__(self, xm, ym):
        self.xm, self.ym = xm, ym

    def marginal_icdf(self, p, dim, **kw):
        return self.xm if dim == 0 else self.ym


class _Budget(BaseException):
    pass


def h_compute(h):
    """whole _compute, all paths whose ray searches end within `iters` iterations"""
    kind = h.cfg["kind"]
    C = shim.mod("contours")
    K, iters = h.cfg["points"], h.cfg["iters"]
    xs = [h.real(f"x{i}", 0.0, 6.0) for i in range(K)]
    ys = [h.real(f"y{i}", 0.0, 6.0) for i in range(K)]
    alpha = h.cfg["alpha"]
    ae = h.cfg["allowed_error"]
    xm, ym = h.real("xm", 1.0, 6.0), h.real("ym", 1.0, 6.0)
    sample = h.arr([[xs[i], ys[i]] for i in range(K)])
    kw = {"deg_step": h.cfg["deg_step"], "sample": sample, "allowed_error": ae}
    if kind == "or":
        kw.update(lowest_theta=h.cfg["lo"], highest_theta=h.cfg["hi"])
    # bound the exploration: abandon paths that iterate longer (they are covered by the inductive step)
    count = {"n": 0}
    real_and, real_or = np.logical_and, np.logical_or

    def counting(f):
        def g(*a, **k):
            count["n"] += 1
            if count["n"] > iters * h.cfg["rays"]:
                raise _Budget()
            return f(*a, **k)
        return g

    cls = getattr(C, CLS[kind])
    with warnings.catch_warnings(record=True) as w:
        warnings.simplefilter("always")
        try:
            if h.sym:
                npx.OVERRIDES["logical_and"] = counting(lambda a, b: np.logical_and(npx._A(a), npx._A(b)))
                npx.OVERRIDES["logical_or"] = counting(lambda a, b: np.logical_or(npx._A(a), npx._A(b)))
            try:
                c = cls(_Model(xm, ym), alpha, **kw)
            finally:
                npx.OVERRIDES.pop("logical_and", None)
                npx.OVERRIDES.pop("logical_or", None)
        except _Budget:
            h.note("paths needing more iterations are abandoned here (inductive step covers them)")
            return
        except IndexError:
            h.note("OR contour with every searched point beyond 1.1 x sample maximum raises IndexError (not judged)")
            return
    warned = any(issubclass(m.category, UserWarning) and "precision" in str(m.message) for m in w)
    h.reach()
    coords = c.coordinates
    if kind == "and":
        thetas = np.arange(0, 90, h.cfg["deg_step"])
    else:
        thetas = np.arange(h.cfg["lo"], h.cfg["hi"], h.cfg["deg_step"])
    n = np.shape(coords)[0]
    md2 = xm * xm + ym * ym

    def val(v):
        return v[0] if np.ndim(v) else v

    if kind == "and":
        h.check(n == len(thetas) + 1, "one-point-per-ray-plus-origin")
        h.close(val(coords[n - 1, 0]), 0.0, "closed-through-the-origin")
        h.close(val(coords[n - 1, 1]), 0.0, "closed-through-the-origin")
        pts = [(val(coords[k, 0]), val(coords[k, 1]), thetas[k]) for k in range(len(thetas))]
    else:
        h.check(n >= 4, "or-contour-closure-points")
        m = n - 3
        h.close(val(coords[m, 0]), 0.0, "closure-(0,y_last)")
        h.close(val(coords[m, 1]), val(coords[m - 1, 1]), "closure-(0,y_last)")
        h.close(val(coords[m + 1, 0]), 0.0, "closure-(0,0)")
        h.close(val(coords[m + 1, 1]), 0.0, "closure-(0,0)")
        h.close(val(coords[m + 2, 0]), val(coords[0, 0]), "closure-(x_first,0)")
        h.close(val(coords[m + 2, 1]), 0.0, "closure-(x_first,0)")
        h.check(m <= len(thetas), "at-most-one-point-per-ray")
        if h.sym:
            xmax, ymax = npx.amax(h.arr(xs)), npx.amax(h.arr(ys))
        else:
            xmax, ymax = max(xs), max(ys)
        pts = []
        for k in range(m):
            px, py = val(coords[k, 0]), val(coords[k, 1])
            h.check(px < 1.1 * xmax, "kept-points-inside-1.1-x-sample-maximum")
            h.check(py < 1.1 * ymax, "kept-points-inside-1.1-x-sample-maximum")
            pts.append((px, py, None))
    for (px, py, th) in pts:
        if th is not None:
            cth, sth = math.cos(th / 180 * math.pi), math.sin(th / 180 * math.pi)
            h.close(px * sth, py * cth, "searched-point-on-its-ray", rtol=1e-9, atol=1e-9)
        else:
            # OR: the ray of a kept point is one of the requested rays
            if h.sym:
                alts = []
                for t in thetas:
                    cth, sth = math.cos(t / 180 * math.pi), math.sin(t / 180 * math.pi)
                    d = px * sth - py * cth
                    alts.append(sym.And(d <= 1e-9, d >= -1e-9))
                h.check(sym.Or(*alts), "searched-point-on-a-requested-ray")
            else:
                h.check(any(abs(px * math.sin(t / 180 * math.pi) - py * math.cos(t / 180 * math.pi)) <= 1e-9 for t in thetas),
                        "searched-point-on-a-requested-ray")
        if not warned:
            pe = _exceed(h, kind, xs, ys, px, py)
            d = pe - alpha
            h.check(sym.And(d <= ae * alpha, d >= -ae * alpha) if h.sym else abs(d) <= ae * alpha * (1 + 1e-12),
                    "exceedance-within-allowed-error-of-alpha")


def obligations(tier):
    K = 4 if tier == "quick" else 5
    for kind in ("and", "or"):
        for theta in (0, 30, 45, 87):
            for it in (0, 57, 98, 99):
                if tier == "quick" and theta in (30, 87) and it in (57, 98):
                    continue
                yield ("step", h_step, {"kind": kind, "theta": theta, "iteration": it, "points": K},
                       {"max_paths": 5000})
    pts = 3 if tier == "quick" else 4
    for iters in ((2, 3) if tier == "quick" else (2, 3, 4)):
        yield ("compute", h_compute, {"kind": "and", "points": pts, "iters": iters, "rays": 1, "deg_step": 90,
                                      "alpha": 0.4, "allowed_error": 0.3}, {"max_paths": 20000, "validate": False})
        yield ("compute", h_compute, {"kind": "or", "points": pts, "iters": iters, "rays": 1, "deg_step": 50, "lo": 40,
                                      "hi": 80, "alpha": 0.6, "allowed_error": 0.3}, {"max_paths": 20000, "validate": False})
    yield ("compute", h_compute, {"kind": "and", "points": 3, "iters": 2, "rays": 2, "deg_step": 45, "alpha": 0.4,
                                  "allowed_error": 0.3}, {"max_paths": 30000, "validate": False})
    yield ("compute", h_compute, {"kind": "or", "points": 3, "iters": 2, "rays": 2, "deg_step": 30, "lo": 30, "hi": 80,
                                  "alpha": 0.6, "allowed_error": 0.3}, {"max_paths": 30000, "validate": False})
