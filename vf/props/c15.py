"""C15 - HDC coordinates are exactly the boundary cells of the enclosed region; the line sorter returns a permutation."""

from __future__ import annotations

import itertools
import warnings

import numpy as np

from .. import sym, shim, stubs, npx

PROPERTY = "C15"
LEVEL_TEXT = ("bounded symbolic exploration: the enclosed region is an array of symbolic booleans (the selection step is "
              "replaced by a stub returning it), every feasible region on the grid is a path on which the real "
              "_compute (scipy.ndimage erosion / labelling for real) is compared with the boundary-cell definition; the "
              "line sorter is run on every digraph with out-degree 2 as its nearest-neighbour graph (a sound "
              "over-approximation of all planar point sets of that size)")
FUNCTIONS = ["contours.HighestDensityContour._compute", "utils.sort_points_to_form_continuous_line"]
BOUNDS = {
    "quick": "every region on grids 3x3 (anisotropic cell sizes 3:1) and 2x2x2 (512 + 256 regions); sorter: every "
             "2-out-regular neighbour digraph on 4 points (81) and 1000 digraphs on 6 points incl. all with two "
             "separate clusters, with and without optimal-start search",
    "thorough": "grids 2x6 (4096 regions), 2x2x3 (4096), 3x3 with the centre fixed plus 3x3x3 shell; sorter on 5 points (7776 graphs)",
}
OUTSIDE = [
    "grids larger than the bound (erosion and labelling are local 3^n operations; nothing beyond is claimed)",
    "regions of one or two boundary cells in 2-D: sklearn's NearestNeighbors(2) raises ValueError there - an "
    "exception, not a silent result: recorded, not judged",
    "the geometric quality of the order produced by the sorter (only 'permutation of the input' is claimed)",
]
ASSUMPTIONS = ["scipy.ndimage.binary_erosion / label run for real on the concrete mask of each path",
               "nearest-neighbour graph stub: row i has exactly two entries at two other points (sklearn kneighbors_graph "
               "contract); every such digraph is explored, which covers all geometric point sets of that size"]


def _neighbours(shape):
    offs = [o for o in itertools.product((-1, 0, 1), repeat=len(shape)) if any(o)]
    return offs


def _ref_boundary(mask):
    shape = mask.shape
    out = np.zeros(shape, dtype=bool)
    for idx in np.ndindex(shape):
        if not mask[idx]:
            continue
        for o in _neighbours(shape):
            j = tuple(i + d for i, d in zip(idx, o))
            if any(k < 0 or k >= n for k, n in zip(j, shape)) or not mask[j]:
                out[idx] = True
                break
    return out


def _components(bmask):
    shape = bmask.shape
    seen = np.zeros(shape, dtype=bool)
    comps = []
    for idx in np.ndindex(shape):
        if bmask[idx] and not seen[idx]:
            stack, comp = [idx], []
            seen[idx] = True
            while stack:
                c = stack.pop()
                comp.append(c)
                for o in _neighbours(shape):
                    j = tuple(i + d for i, d in zip(c, o))
                    if all(0 <= k < n for k, n in zip(j, shape)) and bmask[j] and not seen[j]:
                        seen[j] = True
                        stack.append(j)
            comps.append(sorted(comp))
    return comps


GRIDS = {
    "3x3": ([(0.0, 6.0), (0.0, 2.0)], [3.0, 1.0]),
    "2x6": ([(0.0, 2.0), (0.0, 2.5)], [2.0, 0.5]),
    "2x2x2": ([(0.0, 1.0), (0.0, 2.0), (0.0, 0.5)], [1.0, 2.0, 0.5]),
    "2x2x3": ([(0.0, 1.0), (0.0, 2.0), (0.0, 1.0)], [1.0, 2.0, 0.5]),
}


def h_boundary(h):
    C = shim.mod("contours")
    limits, deltas = GRIDS[h.cfg["grid"]]
    nd = len(limits)
    centres = [np.arange(min(l), max(l) + d, d) for l, d in zip(limits, deltas)]
    shape = tuple(len(c) for c in centres)
    flags = {idx: h.boolean("m" + "_".join(map(str, idx))) for idx in np.ndindex(shape)}
    mask = np.zeros(shape, dtype=bool)
    for idx in np.ndindex(shape):
        mask[idx] = bool(flags[idx])

    class M:
        n_dim = nd

    def fake_joint(self, coords):
        return np.ones(shape) * 0.01

    def fake_select(array, limit):
        return mask.astype(float), 0.01

    with warnings.catch_warnings():
        warnings.simplefilter("ignore")
        with stubs.patch_attr(C.HighestDensityContour, "cell_averaged_joint_pdf", fake_joint), \
                stubs.patch_attr(C.HighestDensityContour, "cumsum_biggest_until", staticmethod(fake_select)):
            try:
                c = C.HighestDensityContour(M(), 0.1, limits=limits, deltas=deltas)
            except ValueError as e:
                if "n_neighbors" in str(e) or "n_samples" in str(e):
                    h.note("2-D regions with fewer than 3 boundary cells raise ValueError (exception, not judged)")
                    return
                raise
    h.reach()
    ref = _ref_boundary(mask)
    comps = _components(ref)
    centre = lambda idx: tuple(round(float(centres[d][idx[d]]), 9) for d in range(nd))
    want = sorted(centre(i) for i in np.ndindex(shape) if ref[i])
    coords = c.coordinates
    got_sets = []
    if isinstance(coords, list):
        if len(coords) and isinstance(coords[0], (list, tuple)):
            for part in coords:
                got_sets.append([tuple(round(float(part[d][k]), 9) for d in range(nd)) for k in range(len(part[0]))])
        elif len(coords):
            got_sets.append([tuple(round(float(coords[d][k]), 9) for d in range(nd)) for k in range(len(coords[0]))])
    else:
        arr = np.asarray(sym.concretize(np.asarray(coords)))
        h.check(arr.ndim == 2 and arr.shape[1] == nd, "single-region-as-(N,n_dim)-array", f"shape {arr.shape}")
        got_sets.append([tuple(round(float(v), 9) for v in row) for row in arr])
    got = sorted(p for s_ in got_sets for p in s_)
    h.check(got == want, "coordinates-are-exactly-the-boundary-cells-each-once",
            f"region {mask.astype(int).tolist()}: returned {len(got)} points, boundary has {len(want)}; "
            f"missing {sorted(set(want) - set(got))[:4]} extra {sorted(set(got) - set(want))[:4]}")
    h.check(len(got_sets) == len(comps), "one-coordinate-set-per-connected-region", f"{len(got_sets)} sets, {len(comps)} regions")
    if len(got_sets) == len(comps):
        a = sorted(sorted(s_) for s_ in got_sets)
        b = sorted(sorted(centre(i) for i in comp) for comp in comps)
        h.check(a == b, "each-set-is-one-connected-region")


class _FakeNN:
    """stand-in for sklearn.neighbors.NearestNeighbors(n_neighbors=2): the graph is chosen by the harness"""
    graph = None

    def __init__(self, n_neighbors=2, **kw):
        self.k = n_neighbors

    def fit(self, X):
        self.n = len(X)
        return self

    def kneighbors_graph(self, X=None, **kw):
        from scipy.sparse import csr_matrix
        g = _FakeNN.graph
        rows, cols = [], []
        for i, nb in enumerate(g):
            for j in nb:
                rows.append(i)
                cols.append(j)
        return csr_matrix((np.ones(len(rows)), (rows, cols)), shape=(self.n, self.n))


def h_sorter(h):
    U = shim.mod("utils")
    n = h.cfg["n"]
    opt = h.cfg["optimal"]
    choices = []
    for i in range(n):
        others = [j for j in range(n) if j != i]
        if h.cfg.get("clustered") and i >= n - 3:
            others = [j for j in range(n - 3, n) if j != i]   # the last three points only see each other (a far cluster)
        pairs = list(itertools.combinations(others, 2))
        c = h.integer(f"nn{i}", 0, len(pairs) - 1)
        k = next(k for k in range(len(pairs)) if bool(c == k))
        choices.append(pairs[k])
    x = np.arange(n) * 1.5 + 0.25
    y = (np.arange(n) ** 2) * 0.5 + 1.0
    _FakeNN.graph = choices
    with stubs.patch_attr(U, "NearestNeighbors", _FakeNN):
        xx, yy = U.sort_points_to_form_continuous_line(x, y, search_for_optimal_start=opt)
    h.reach()
    got = sorted(zip([float(v) for v in xx], [float(v) for v in yy]))
    want = sorted(zip(x.tolist(), y.tolist()))
    h.check(got == want, "sorter-returns-a-permutation-of-its-input",
            f"neighbour graph {choices}: {len(got)} of {n} points returned")


def obligations(tier):
    for g in (("3x3", "2x2x2") if tier == "quick" else ("3x3", "2x2x2", "2x6", "2x2x3")):
        yield ("boundary", h_boundary, {"grid": g}, {"max_paths": 10000, "validate": True})
    for n in ((4,) if tier == "quick" else (4, 5)):
        for opt in (False, True):
            yield ("sorter", h_sorter, {"n": n, "optimal": opt}, {"max_paths": 20000})
    # 6 points are the smallest set whose 2-nearest-neighbour graph can fall apart (two clusters of three):
    # three points choose freely among all others, three form a far cluster (1000 graphs, disconnected ones included)
    for opt in (False, True):
        yield ("sorter", h_sorter, {"n": 6, "optimal": opt, "clustered": True}, {"max_paths": 20000})
