"""C07 - samples follow the model they are drawn from and are reproducible by seed (dataflow part)."""

from __future__ import annotations

import numpy as np

from .. import sym, shim, stubs
from .families import FAMILIES, SHIPPED, declare_params
from .models import structures, skey, parse_skey, build_model

PROPERTY = "C07"
LEVEL_TEXT = ("bounded symbolic execution of draw_sample of every family, of ConditionalDistribution and of "
              "GlobalHierarchicalModel with scipy's rvs as an uninterpreted function of (parameters, size, generator "
              "state, element index): decides the row-wise conditional dataflow, the (n, n_dim) shape and the threading "
              "of one generator through all dimensions; statistical agreement (DKW) is not decided")
FUNCTIONS = [
    "jointmodels.GlobalHierarchicalModel.draw_sample", "distributions.ConditionalDistribution.draw_sample",
    "distributions.Distribution._get_rvs_size", "distributions.WeibullDistribution.draw_sample",
    "distributions.LogNormalDistribution.draw_sample", "distributions.NormalDistribution.draw_sample",
    "distributions.LogNormalNormFitDistribution.draw_sample",
    "distributions.ExponentiatedWeibullDistribution.draw_sample",
    "distributions.GeneralizedGammaDistribution.draw_sample", "distributions.VonMisesDistribution.draw_sample",
    "distributions.ScipyDistribution.draw_sample",
]
BOUNDS = {
    "quick": "n_dim in {2,3}, all 2+6 dependence structures, 2 family rotations, n in {1,3} rows, random_state in "
             "{None, int, Generator}; all distribution parameters and dependence coefficients symbolic",
    "thorough": "plus n_dim = 4 (24 structures), 7 rotations for n_dim <= 3, n = 4",
}
OUTSIDE = [
    "that scipy's rvs follows its own cdf; DKW agreement of samples with the model (statistical)",
    "'different seeds give different samples' (streams are distinct uninterpreted symbols; inequality of their values "
    "is a property of numpy's bit generators)",
    "sample sizes beyond the bound (the code is vectorised over rows)",
]
ASSUMPTIONS = [
    "rvs contract (vf/stubs.py): deterministic function of parameters, size and generator state; a Generator is "
    "advanced by each draw; an int random_state restarts a fresh stream for that call; default_rng(g) is g",
]


def _reference_sample(h, dims, n, gen):
    """independent description of hierarchical sampling: dimension i of row r is drawn from family i at the
    parameters given by the value of column conditional_on[i] in the same row r, all from one generator."""
    cols = []
    for d in dims:
        K = getattr(h.K, d.fam.scipy)
        if d.cond is None:
            col = K.rvs(*d.ref(), size=n, random_state=gen)
        else:
            g = cols[d.cond]
            ref = d.ref(g)
            col = K.rvs(*ref, size=(1, n), random_state=gen)
            col = col.reshape(n) if hasattr(col, "reshape") else col
        cols.append(h.arr(col) if not hasattr(col, "shape") or np.shape(col) == () else col)
    return cols


def h_model(h):
    struct = parse_skey(h.cfg["struct"])
    model, dims = build_model(h, struct, rot=h.cfg["rot"])
    n = h.cfg["n"]
    kind = h.cfg["rs"]
    if kind == "none":
        stubs.reset_rng() if h.sym else np.random.seed(11)
        got = model.draw_sample(n)
        stubs.reset_rng() if h.sym else np.random.seed(11)
        exp = _reference_sample(h, dims, n, None)
    elif kind == "int":
        seed = h.integer("seed", 0, 1000)
        got = model.draw_sample(n, random_state=seed)
        exp = _reference_sample(h, dims, n, h.generator(seed))
        again = model.draw_sample(n, random_state=seed)
    else:
        got = model.draw_sample(n, random_state=h.generator(5))
        exp = _reference_sample(h, dims, n, h.generator(5))
        again = model.draw_sample(n, random_state=h.generator(5))
    h.reach()
    h.check(np.shape(got) == (n, len(struct)), "shape-n-by-ndim", f"got {np.shape(got)}")
    for i in range(len(struct)):
        h.close(got[:, i], exp[i], "row-wise-conditional-sampling-from-one-generator")
    if kind != "none":
        h.close(again, got, "same-seed-same-sample")


def h_univariate(h):
    fam = FAMILIES[h.cfg["family"]]
    th = declare_params(h, fam, "t_")
    d = fam.make(**th)
    n = h.cfg["n"]
    kind = h.cfg["rs"]
    seed = h.integer("seed", 0, 1000)
    rs = {"int": seed, "gen": h.generator(seed)}[kind]
    rs2 = {"int": seed, "gen": h.generator(seed)}[kind]
    got = d.draw_sample(n, random_state=rs)
    exp = getattr(h.K, fam.scipy).rvs(*fam.ref(th), size=n, random_state=rs2)
    h.reach()
    h.check(np.shape(got) == (n,), "requested-size", f"got {np.shape(got)}")
    h.close(got, exp, "sample-is-rvs-of-documented-family-and-parameters")
    # explicit parameters: same as an instance constructed with them
    d0 = fam.make()
    rs3 = {"int": seed, "gen": h.generator(seed)}[kind]
    h.close(d0.draw_sample(n, **th, random_state=rs3), exp, "explicit-parameters")


def obligations(tier):
    dims = (2, 3) if tier == "quick" else (2, 3, 4)
    for nd in dims:
        rots = (0, 3) if tier == "quick" else (range(7) if nd <= 3 else (0, 2, 4))
        for st in structures(nd):
            for rot in rots:
                for rs in ("none", "int", "gen"):
                    for n in ((1, 3) if tier == "quick" else (1, 3, 4)):
                        if nd == 4 and n != 3:
                            continue
                        yield ("model", h_model, {"struct": skey(st), "rot": rot, "rs": rs, "n": n}, {})
    for fname in FAMILIES:
        for rs in ("int", "gen"):
            for n in (1, 4):
                yield ("univariate", h_univariate, {"family": fname, "rs": rs, "n": n}, {})
