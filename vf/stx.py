"""scipy.stats stand-in: distribution kernels as uninterpreted functions with instance axioms.

`sts.<family>.cdf/ppf/pdf(x, *shapes, loc, scale)` with any symbolic argument becomes the term
`<family>_<method>(x, shapes..., loc, scale)` (arguments normalised to scipy's full signature, so that
`norm.cdf(x)` and `norm.cdf(x, 0, 1)` are the same term).  Contract instances added per created term:
  cdf in [0,1];  pdf >= 0;  0<p<1 -> cdf(ppf(p,θ),θ) = p;  (normal only) ppf(cdf(x,θ),θ) = x.
`rvs` and `fit` are environment: routed to HOOKS (harness-provided recording stubs).
"""

from __future__ import annotations

import math

import numpy as _np
import scipy.stats as _sts
import z3

from . import sym
from .sym import SR, SB, SymArray, engine, lift, HarnessError
from .npx import deep_strip, deep_wrap, _symlists

HOOKS = {}
CALLS = []  # (family, method, args) of symbolic kernel applications, for mapping assertions
TERMS = {}  # (engine, path, family, method) -> [(x term, parameter terms, value term)]
AUTO_MONOTONE = False  # harness switch: add monotonicity instances for cdf/ppf kernels as terms are created


def add_monotonicity(methods=("cdf", "ppf")):
    """contract instances: cdf and ppf are non-decreasing in their first argument (same parameters), for every
    pair of kernel terms created so far on this path"""
    e = engine()
    n = 0
    for (eid, path, fam, method), terms in list(TERMS.items()):
        if eid != id(e) or path != e.stats["paths"] or method not in methods:
            continue
        for i in range(len(terms)):
            for j in range(i + 1, len(terms)):
                (x1, p1, v1), (x2, p2, v2) = terms[i], terms[j]
                if len(p1) != len(p2) or x1.eq(x2):
                    continue
                same = z3.And(*[a == b for a, b in zip(p1, p2)]) if p1 else z3.BoolVal(True)
                e.axiom(z3.Implies(z3.And(same, x1 <= x2), v1 <= v2))
                e.axiom(z3.Implies(z3.And(same, x2 <= x1), v2 <= v1))
                n += 1
    return n


def _full_args(real, args, kw):
    """normalise to (shape_1..shape_k, loc, scale) like scipy's _parse_args"""
    k = real.numargs
    names = [s.strip() for s in real.shapes.split(",")] if real.shapes else []
    args = list(args)
    kw = dict(kw)
    if len(args) > k + 2:
        raise TypeError(f"{real.name}: too many positional arguments")
    full = [None] * (k + 2)
    for i, a in enumerate(args):
        full[i] = a
    for i, n in enumerate(names + ["loc", "scale"]):
        if n in kw:
            if full[i] is not None:
                raise TypeError(f"{real.name}: multiple values for argument '{n}'")
            full[i] = kw.pop(n)
    if kw:
        raise TypeError(f"{real.name}: unexpected keyword arguments {sorted(kw)}")
    for i in range(k):
        if full[i] is None:
            raise TypeError(f"{real.name}: missing shape parameter {names[i]}")
    if full[k] is None:
        full[k] = 0
    if full[k + 1] is None:
        full[k + 1] = 1
    return full


def kernel_scalar(fam, method, x, params):
    """one application; concrete arguments -> real scipy"""
    allc = not isinstance(x, (SR, SB)) and not any(isinstance(p, (SR, SB)) for p in params)
    if allc:
        real = getattr(_sts, fam)
        return float(getattr(real, method)(x, *params))
    e = engine()
    xs = lift(x)
    ps = [lift(p) for p in params]
    f = sym.uf(f"{fam}_{method}", 1 + len(ps))
    v = f(xs.t, *[p.t for p in ps])
    nan = xs.nan
    for p in ps:
        nan = sym._or_nan(nan, p.nan)
    key = (id(e), e.stats["paths"], fam, method)
    if AUTO_MONOTONE and method in ("cdf", "ppf"):
        # contract instance on creation: non-decreasing in the first argument for syntactically equal parameters
        pk = tuple(p.t.get_id() for p in ps)
        for (x2, p2, v2) in TERMS.get(key, []):
            if tuple(q.get_id() for q in p2) == pk and not x2.eq(xs.t):
                e.axiom(z3.Implies(xs.t <= x2, v <= v2))
                e.axiom(z3.Implies(x2 <= xs.t, v2 <= v))
    TERMS.setdefault(key, []).append((xs.t, tuple(p.t for p in ps), v))
    if method == "cdf" and fam == "vonmises":
        # scipy's von Mises cdf is the unwrapped cumulative on the real line: within [loc - pi*scale, loc + pi*scale]
        # it runs from 0 to 1, beyond it continues (cdf(x + 2 pi) = cdf(x) + 1): above 1 to the right, below 0 to the left
        lo_ = ps[1].t - sym._q(math.pi) * ps[2].t
        hi_ = ps[1].t + sym._q(math.pi) * ps[2].t
        e.axiom(z3.Implies(z3.And(xs.t >= lo_, xs.t <= hi_), z3.And(v >= 0, v <= 1)))
        e.axiom(z3.Implies(xs.t > hi_, v > 1))
        e.axiom(z3.Implies(xs.t < lo_, v < 0))
    elif method == "cdf":
        e.axiom(z3.And(v >= 0, v <= 1))
        if fam == "norm":
            # the normal cdf is a strictly increasing bijection R -> (0,1)
            e.axiom(z3.And(v > 0, v < 1))
            e.axiom(sym.uf(f"{fam}_ppf", 1 + len(ps))(v, *[p.t for p in ps]) == xs.t)
    elif method == "pdf":
        e.axiom(v >= 0)
    elif method == "ppf":
        if fam == "norm":
            # (the median instance Phi^-1(p) >= 0 <=> p >= 1/2 is added by harnesses where needed: as a blanket
            #  axiom per term it made feasibility checks with ~100 points time out)
            # |Phi^-1(p)| < 6 for p in [1e-9, 1 - 1e-9]  (Phi^-1(1 - 1e-9) = 5.9978)
            e.axiom(z3.Implies(z3.And(ps[0].t == 0, ps[1].t == 1, xs.t >= sym.rterm(1e-9), xs.t <= 1 - sym.rterm(1e-9)),
                               z3.And(v > -6, v < 6)))
        if fam == "chi2":
            # chi2_n^-1(p) in [0, 60] for n <= 4 and p <= 1 - 1e-9  (chi2_4^-1(1 - 1e-9) = 48.4)
            e.axiom(v >= 0)
            e.axiom(z3.Implies(z3.And(ps[0].t <= 4, xs.t <= 1 - sym.rterm(1e-9)), v <= 60))
        c = sym.uf(f"{fam}_cdf", 1 + len(ps))(v, *[p.t for p in ps])
        e.axiom(z3.Implies(z3.And(xs.t > 0, xs.t < 1), c == xs.t))
        e.axiom(z3.And(c >= 0, c <= 1))
    e.stats["kernels"].add(f"{fam}.{method}")
    return SR(v, nan)


def kernel(fam, method, x, params):
    """broadcasting application"""
    args = [_symlists(x)] + [_symlists(p) for p in params]
    args = [deep_strip(a) for a in args]
    n = len(args)

    def el(*a):
        return kernel_scalar(fam, method, a[0], a[1:])

    r = _np.frompyfunc(el, n, 1)(*args)
    if isinstance(r, _np.ndarray) and r.dtype == object and not sym.is_sym(r):
        r = r.astype(float)
    return deep_wrap(r)


class DistProxy:
    def __init__(self, name):
        self.name = name
        self.real = getattr(_sts, name)
        self.shapes = self.real.shapes
        self.numargs = self.real.numargs

    def _k(self, method, x, args, kw):
        full = _full_args(self.real, args, kw)
        CALLS.append((self.name, method, x, tuple(full)))
        if not sym.is_sym(x) and not sym.is_sym(full):
            return deep_wrap(getattr(self.real, method)(deep_strip(x), *deep_strip(full)))
        return kernel(self.name, method, x, full)

    def cdf(self, x, *args, **kw):
        return self._k("cdf", x, args, kw)

    def ppf(self, q, *args, **kw):
        return self._k("ppf", q, args, kw)

    def pdf(self, x, *args, **kw):
        return self._k("pdf", x, args, kw)

    def rvs(self, *args, size=None, random_state=None, **kw):
        full = _full_args(self.real, args, kw)
        if "rvs" in HOOKS:
            return HOOKS["rvs"](self.name, tuple(full), size, random_state)
        if sym.is_sym(full):
            raise HarnessError("rvs with symbolic parameters but no rvs stub installed")
        return deep_wrap(self.real.rvs(*deep_strip(full), size=size, random_state=random_state))

    def fit(self, data, *args, **kw):
        if "fit" in HOOKS:
            return HOOKS["fit"](self.name, data, args, kw)
        if sym.is_sym(data) or sym.is_sym(args) or sym.is_sym(kw):
            raise HarnessError("fit with symbolic arguments but no fit stub installed")
        return self.real.fit(deep_strip(data), *args, **kw)

    def __getattr__(self, name):
        return getattr(self.real, name)


class StatsProxy:
    rv_continuous = _sts.rv_continuous

    def __init__(self):
        self._cache = {}

    def __getattr__(self, name):
        if name.startswith("__"):
            raise AttributeError(name)
        if name in HOOKS:
            return HOOKS[name]
        real = getattr(_sts, name)
        if isinstance(real, _sts.rv_continuous):
            if name not in self._cache:
                self._cache[name] = DistProxy(name)
            return self._cache[name]
        return real


STX = StatsProxy()


class ConcreteKernels:
    """same call surface for oracles in concrete (replay) mode"""

    def __getattr__(self, name):
        return getattr(_sts, name)
