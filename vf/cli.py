"""./check <ID> [--tier quick|thorough] [--replay FILE] [--jobs N] [--only SUBSTR]"""

from __future__ import annotations

import argparse
import concurrent.futures as cf
import importlib
import json
import multiprocessing as mp
import os
import re
import sys
import time

ROOT = os.path.dirname(os.path.dirname(os.path.abspath(__file__)))
_OUT = os.environ.get("VERIF_OUT")  # dev runs against scratch copies must not clobber /verif/evidence
EVID = os.path.join(_OUT or ROOT, "evidence")
REPLAYS = os.path.join(_OUT or ROOT, "replays")
KNOWN = os.path.join(ROOT, "known_findings.json")


def load_prop(pid):
    return importlib.import_module(f"vf.props.{pid.lower()}")


def obligations(pid, tier):
    m = load_prop(pid)
    return list(m.obligations(tier))


def _work(args):
    pid, tier, idx, seed = args
    from . import harness

    obs = obligations(pid, tier)
    hname, fn, cfg, opts = obs[idx]
    opts = dict(opts or {})
    custom = opts.pop("runner", None)
    try:
        if custom is not None:
            r = custom(pid, hname, fn, cfg, seed=seed, **opts)
        else:
            opts.setdefault("budget_s", 1500 if tier == "quick" else 7200)
            r = harness.run_obligation(pid, hname, fn, cfg, seed=seed, **opts)
    except Exception as e:  # framework bug: fail closed
        import traceback

        r = {"property": pid, "harness": hname, "cfg": harness.cfg_key(cfg), "status": "harness_error",
             "error": f"{type(e).__name__}: {e}\n{traceback.format_exc(limit=10)}", "paths": 0, "queries": {},
             "solver_s": 0.0, "labels": {}, "wall_s": 0.0}
    r["idx"] = idx
    return r


def load_known(pid):
    if not os.path.exists(KNOWN):
        return []
    data = json.load(open(KNOWN))
    return [e for e in data.get("findings", []) if e.get("property") == pid]


def match_known(entries, r):
    for e in entries:
        if e.get("status") != "known":
            continue
        if e.get("harness") and e["harness"] != r["harness"]:
            continue
        if e.get("cfg_regex") and not re.search(e["cfg_regex"], r["cfg"]):
            continue
        if e.get("label") and e["label"] != (r.get("violation") or {}).get("label"):
            continue
        return e
    return None


def replay_file(pid, path):
    from . import harness

    rec = json.load(open(path))
    m = load_prop(pid)
    for tier in ("quick", "thorough"):
        for hname, fn, cfg, opts in m.obligations(tier):
            if hname == rec["harness"] and harness.cfg_key(cfg) == rec["cfg"]:
                custom = (opts or {}).get("replayer")
                if custom is not None:
                    ok, why = custom(fn, cfg, rec["inputs"])
                else:
                    ok, why = harness.run_concrete(fn, cfg, rec["inputs"])
                print(json.dumps({"reproduced": not ok, "result": why}, default=str, indent=1))
                if not ok:
                    print(f"VIOLATION property={pid} replay={path}")
                    return 1
                return 0
    print("replay: no such harness/configuration in the current machinery", file=sys.stderr)
    return 3


def main(argv=None):
    ap = argparse.ArgumentParser()
    ap.add_argument("pid")
    ap.add_argument("--tier", default=os.environ.get("VERIF_TIER", "quick"), choices=["quick", "thorough"])
    ap.add_argument("--replay")
    ap.add_argument("--jobs", type=int, default=int(os.environ.get("VERIF_JOBS", "0")) or min(16, os.cpu_count() or 4))
    ap.add_argument("--only", default=None)
    ap.add_argument("-v", action="store_true")
    a = ap.parse_args(argv)
    pid = a.pid.upper()
    seed = int(os.environ.get("VERIF_SEED", "0") or 0)
    if a.replay:
        return replay_file(pid, a.replay)

    t0 = time.time()
    m = load_prop(pid)
    selftest_info = None
    if not os.environ.get("VERIF_SKIP_SELFTEST"):
        # validation of the encoding (numpy stand-ins, FP models, real functions under the shim) - fail closed
        from . import selftest
        try:
            with cf.ProcessPoolExecutor(max_workers=1, mp_context=mp.get_context("fork")) as ex:
                ncases, fails = ex.submit(selftest.run, seed).result()
        except Exception as e:      # fail closed, without a traceback that could be mistaken for a verdict
            print(f"HARNESS-ERROR property={pid} self-test of the encoding could not run: {type(e).__name__}: {str(e)[:300]}")
            return 3
        selftest_info = {"cases": ncases, "failures": len(fails)}
        if fails:
            print(f"HARNESS-ERROR property={pid} self-test of the encoding failed ({len(fails)} of {ncases}):")
            for f_ in fails[:10]:
                print("   " + f_[:200])
            return 3
    obs = obligations(pid, a.tier)
    from .harness import cfg_key
    idxs = [i for i, o in enumerate(obs) if not a.only or a.only in (o[0] + " " + cfg_key(o[2]))]
    results = []
    ctx = mp.get_context("fork")
    if a.jobs <= 1 or len(idxs) <= 1:
        for i in idxs:
            results.append(_work((pid, a.tier, i, seed)))
    else:
        with cf.ProcessPoolExecutor(max_workers=a.jobs, mp_context=ctx) as ex:
            for r in ex.map(_work, [(pid, a.tier, i, seed) for i in idxs], chunksize=1):
                results.append(r)

    known = load_known(pid)
    os.makedirs(REPLAYS, exist_ok=True)
    os.makedirs(EVID, exist_ok=True)
    violations, known_hits, broken = [], [], []
    for r in results:
        st = r["status"]
        if st == "violated":
            k = match_known(known, r)
            if k is not None:
                known_hits.append((k, r))
                r["status"] = "known_finding"
                continue
            path = os.path.join(REPLAYS, f"{pid}-{r['harness']}-{r['idx']}.json")
            json.dump({"property": pid, "harness": r["harness"], "cfg": r["cfg"],
                       "inputs": r["violation"].get("inputs"), "label": r["violation"].get("label"),
                       "detail": r["violation"].get("detail")}, open(path, "w"), indent=1, default=str)
            r["replay"] = path
            violations.append(r)
        elif st in ("harness_error", "unconfirmed", "inconclusive", "vacuous"):
            broken.append(r)

    wall = time.time() - t0
    ev = build_evidence(pid, a.tier, seed, m, obs, results, wall, violations, known_hits, broken)
    ev["coverage"]["encoding_selftest"] = selftest_info
    with open(os.path.join(EVID, f"{pid}.json"), "w") as f:
        json.dump(ev, f, indent=1, default=str)

    for r in results:
        if a.v or r["status"] not in ("proved",):
            print(f"[{r['status']}] {r['harness']} {r['cfg']} paths={r.get('paths')} q={r.get('queries')} "
                  f"{r.get('wall_s')}s")
            if r.get("error"):
                print("   " + r["error"].replace("\n", "\n   "))
            if r.get("violation") and r["status"] != "known_finding":
                print("   " + json.dumps(r["violation"], default=str)[:700])
    seen = set()
    for k, r in known_hits:
        if k["id"] in seen:
            continue
        seen.add(k["id"])
        print(f"KNOWN-FINDING: property={pid} {k['what']} [{k['id']}; e.g. {r['harness']} {r['cfg']}]")
    nq = sum(sum(r.get("queries", {}).values()) for r in results)
    print(f"{pid} tier={a.tier}: {len(results)} obligations, "
          f"{sum(1 for r in results if r['status'] == 'proved')} proved, {len(known_hits)} known-finding hits, "
          f"{len(violations)} violations, {len(broken)} broken/inconclusive; {nq} solver queries, "
          f"solver {sum(r.get('solver_s', 0) for r in results):.1f}s, wall {wall:.1f}s")
    for r in violations:
        print(f"VIOLATION property={pid} replay={r['replay']}")
    if violations:
        return 1
    if broken:
        for r in broken:
            print(f"HARNESS-ERROR property={pid} harness={r['harness']} cfg={r['cfg']} status={r['status']}")
        return 3
    return 0


def build_evidence(pid, tier, seed, m, obs, results, wall, violations, known_hits, broken):
    from . import shim

    funcs = {}
    for q in getattr(m, "FUNCTIONS", []):
        try:
            funcs[f"virocon.{q}"] = shim.source_sha(q)
        except Exception as e:
            funcs[f"virocon.{q}"] = f"unavailable: {e}"
    queries = {}
    for r in results:
        for k, v in r.get("queries", {}).items():
            queries[k] = queries.get(k, 0) + v
    labels = {}
    nontrivial = set()
    for r in results:
        for lab, d in r.get("labels", {}).items():
            for st, n in d.items():
                labels.setdefault(st, 0)
                labels[st] += n
        if sum(r.get("queries", {}).values()) > 0 or r.get("paths", 0) > 1:
            nontrivial.add((r["harness"], r["cfg"]))
    samples = []
    for r in results[:: max(1, len(results) // 6)][:6]:
        samples.append({k: r.get(k) for k in ("harness", "cfg", "status", "labels", "paths", "queries", "solver_s",
                                               "validation", "wall_s")})
    for r in violations[:3]:
        samples.append({"harness": r["harness"], "cfg": r["cfg"], "status": "violated", "violation": r["violation"],
                        "replay": r.get("replay")})
    kernels = sorted({k for r in results for k in r.get("kernels", [])})
    domain = sorted({k for r in results for k in r.get("domain", [])})
    n_eval = sum(sum(d.values()) for r in results for d in r.get("labels", {}).values())
    ev = {
        "property_id": pid,
        "tier": tier,
        "seed": seed,
        "level": "model_checking",
        "coverage": {
            "evaluations": max(1, n_eval),
            "distinct_nontrivial": max(len(nontrivial), 0),
            "rule": "one evaluation = one assertion decided by the SMT solver on one explored path of one "
                    "(harness, configuration) obligation; an obligation counts as distinct and non-trivial when "
                    "the solver was actually queried for it (the assertion did not fold to a constant) or when "
                    "more than one path was explored",
            "samples": samples,
            "states": max(1, sum(r.get("paths", 0) for r in results)),
            "transitions": max(1, sum(r.get("decisions", 0) for r in results) + len(results)),
            "traces_validated_against_impl": sum(1 for r in results if r.get("validation") == "ok")
            + sum(1 for r in results if r["status"] in ("violated", "known_finding")),
            "exhaustive": False,
            "technique": "symbolic execution of the real virocon functions (module globals rebound to symbolic "
                         "numpy/scipy stand-ins), z3 decides every assertion over all inputs within the bounds",
            "functions_encoded": funcs,
            "bounds": getattr(m, "BOUNDS", {}).get(tier, getattr(m, "BOUNDS", {})),
            "outside_the_claim": getattr(m, "OUTSIDE", []),
            "obligations": len(results),
            "obligation_status": {s: sum(1 for r in results if r["status"] == s)
                                  for s in sorted({r["status"] for r in results})},
            "assertion_status": labels,
            "obligations_without_solver_query": {
                "count": sum(1 for r in results if (r["harness"], r["cfg"]) not in nontrivial),
                "meaning": "the assertions of these obligations folded to constants on a single path (concrete inputs "
                           "or constant terms): they are decided by running the real code, not by the solver, and are "
                           "not counted in distinct_nontrivial",
                "examples": sorted({r["harness"] for r in results if (r["harness"], r["cfg"]) not in nontrivial})[:12],
            },
            "paths_explored": sum(r.get("paths", 0) for r in results),
            "solver_queries": queries,
            "solver_time_s": round(sum(r.get("solver_s", 0) for r in results), 3),
            "solver": "z3 " + __import__("z3").get_version_string(),
            "uninterpreted_kernels": kernels,
            "domain_assumptions": domain,
            "known_findings_reported": sorted({k["id"] for k, _ in known_hits}),
            "vacuity_witnesses": {"reached": labels.get("witness", 0), "vacuous": labels.get("vacuous", 0)},
        },
        "assumptions": list(getattr(m, "ASSUMPTIONS", [])) + [
            "z3 is sound; counterexamples are replayed on the unpatched code before being reported",
            "Real mode: floats are mathematical reals unless the harness says FP mode",
        ],
        "wall_s": round(wall, 2),
        "violations": len(violations),
    }
    return ev


if __name__ == "__main__":
    sys.exit(main())
