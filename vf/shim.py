"""Import the virocon under test and rebind its module globals to symbolic stand-ins for one harness."""

from __future__ import annotations

import contextlib
import hashlib
import importlib
import inspect
import os
import sys

REPO = os.environ.get("VIROCON_REPO", "/repo")

_vc = None


def virocon():
    """the virocon package from $VIROCON_REPO's current working tree"""
    global _vc
    if _vc is None:
        if REPO not in sys.path:
            sys.path.insert(0, REPO)
        import matplotlib

        matplotlib.use("Agg")
        import warnings

        with warnings.catch_warnings():
            warnings.simplefilter("ignore")
            _vc = importlib.import_module("virocon")
        f = os.path.realpath(_vc.__file__)
        if not f.startswith(os.path.realpath(REPO) + os.sep):
            raise RuntimeError(f"virocon imported from {f}, not from {REPO}")
    return _vc


def mod(name):
    virocon()
    return importlib.import_module(f"virocon.{name}")


def default_bindings():
    from .npx import NPX, MATHX, NDIX
    from .stx import STX

    return {
        "contours": {"np": NPX, "sts": STX, "ndi": NDIX},
        "distributions": {"np": NPX, "sts": STX, "math": MATHX},
        "jointmodels": {"np": NPX},
        "intervals": {"np": NPX},
        "_fitting": {"np": NPX},
        "_intersection": {"np": NPX},
        "_nsphere": {"np": NPX},
        "utils": {"np": NPX},
        "variable_transform": {"np": NPX},
        "predefined": {"np": NPX},
        "plotting": {"np": NPX, "sts": STX},
        "dependencies": {},
    }


_ACTIVE = []  # stack of [(module, name, original, replacement)]


@contextlib.contextmanager
def unpatched():
    """temporarily restore the real bindings (concrete replay from inside a symbolic run)"""
    flat = [e for frame in _ACTIVE for e in frame]
    for module, k, orig, _ in reversed(flat):
        setattr(module, k, orig)
    try:
        yield
    finally:
        for module, k, _, repl in flat:
            setattr(module, k, repl)


@contextlib.contextmanager
def patched(extra=None):
    """rebind module globals; `extra` = {module: {name: obj}} adds/overrides bindings"""
    b = default_bindings()
    for m, d in (extra or {}).items():
        b.setdefault(m, {}).update(d)
    saved = []
    _ACTIVE.append(saved)
    try:
        for m, d in b.items():
            module = mod(m)
            for k, v in d.items():
                if not hasattr(module, k):
                    raise RuntimeError(f"harness out of date: virocon.{m} has no global '{k}'")
                saved.append((module, k, getattr(module, k), v))
                setattr(module, k, v)
        # whatever other names the current source binds numpy / scipy.stats / math / scipy.ndimage to (an import
        # added by a change under test) is rebound as well - except in modules that are deliberately left alone
        import math as _math
        import numpy as _numpy
        import scipy.ndimage as _ndimage
        import scipy.stats as _stats
        from .npx import NPX, MATHX, NDIX
        from .stx import STX
        repl = {id(_numpy): NPX, id(_stats): STX, id(_math): MATHX, id(_ndimage): NDIX}
        for m, d in b.items():
            if not d:
                continue
            module = mod(m)
            for k, v in list(vars(module).items()):
                if id(v) in repl and not isinstance(v, type(NPX)):
                    saved.append((module, k, v, repl[id(v)]))
                    setattr(module, k, repl[id(v)])
        yield
    finally:
        _ACTIVE.pop()
        for module, k, v, _ in reversed(saved):
            setattr(module, k, v)


def source_sha(qualname):
    """sha256 of the current source of virocon.<module>.<obj>[.<attr>]"""
    parts = qualname.split(".")
    module = mod(parts[0])
    obj = module
    for p in parts[1:]:
        obj = inspect.getattr_static(obj, p) if inspect.isclass(obj) else getattr(obj, p)
        if isinstance(obj, (staticmethod, classmethod)):
            obj = obj.__func__
        if isinstance(obj, property):
            obj = obj.fget
    try:
        src = inspect.getsource(obj)
    except (TypeError, OSError):
        src = repr(obj)
    return hashlib.sha256(src.encode()).hexdigest()[:16]
