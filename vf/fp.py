"""FP mode: IEEE-754 binary64 scalars (z3 FloatingPoint terms, every operation rounded to nearest even) that flow
through the same numpy proxy as the Real-mode scalars, plus an external-solver portfolio for the resulting QF_FP
queries (cvc5 1.4 Python API first, /usr/bin/z3 4.8.12 second; z3 5.1 in-process is an order of magnitude slower here).

numpy models used in FP mode (validated against numpy by vf.selftest on random inputs):
  np.arange(start, stop, step):  len = ceil((stop - start) / step),  v_i = start + i * ((start + step) - start)
  np.linspace(a, b, n, endpoint=False, retstep=True):  step = (b - a) / n,  v_i = i * step + a
"""

from __future__ import annotations

import math
import re
import struct
import subprocess
import shutil
import tempfile
import time
import os

import numpy as np
import z3

from . import sym
from .sym import SB, HarnessError

F64 = z3.Float64()
RNE = z3.RNE()


def fterm(x):
    if isinstance(x, SF):
        return x.t
    if isinstance(x, (bool, np.bool_)):
        raise HarnessError("bool in FP arithmetic")
    if isinstance(x, (int, float, np.integer, np.floating)):
        return z3.FPVal(float(x), F64)
    if isinstance(x, np.ndarray) and x.ndim == 0:
        return fterm(x.item())
    raise HarnessError(f"cannot lift {type(x).__name__} to an FP term")


def _cmp(op):
    def f(self, o):
        if isinstance(o, np.ndarray) and o.ndim > 0:
            return NotImplemented
        a, b = self.t, fterm(o)
        return SB({"lt": z3.fpLT, "le": z3.fpLEQ, "gt": z3.fpGT, "ge": z3.fpGEQ, "eq": z3.fpEQ,
                   "ne": lambda x, y: z3.Not(z3.fpEQ(x, y))}[op](a, b))
    return f


class SF:
    """symbolic IEEE double"""
    __slots__ = ("t",)
    __array_priority__ = 1000
    shape = ()
    ndim = 0
    size = 1
    nan = None

    def __init__(self, t):
        self.t = t

    def _bin(self, o, f, swap=False):
        if isinstance(o, np.ndarray) and o.ndim > 0:
            return NotImplemented
        b = fterm(o)
        return SF(f(RNE, b, self.t) if swap else f(RNE, self.t, b))

    def __add__(self, o):
        return self._bin(o, z3.fpAdd)

    def __radd__(self, o):
        return self._bin(o, z3.fpAdd, True)

    def __sub__(self, o):
        return self._bin(o, z3.fpSub)

    def __rsub__(self, o):
        return self._bin(o, z3.fpSub, True)

    def __mul__(self, o):
        return self._bin(o, z3.fpMul)

    def __rmul__(self, o):
        return self._bin(o, z3.fpMul, True)

    def __truediv__(self, o):
        return self._bin(o, z3.fpDiv)

    def __rtruediv__(self, o):
        return self._bin(o, z3.fpDiv, True)

    def __neg__(self):
        return SF(z3.fpNeg(self.t))

    def __pos__(self):
        return self

    def __abs__(self):
        return SF(z3.fpAbs(self.t))

    __lt__ = _cmp("lt")
    __le__ = _cmp("le")
    __gt__ = _cmp("gt")
    __ge__ = _cmp("ge")
    __eq__ = _cmp("eq")
    __ne__ = _cmp("ne")
    __hash__ = object.__hash__

    def __array_ufunc__(self, ufunc, method, *inputs, **kw):
        return sym._apply_ufunc(ufunc, method, inputs, kw)

    def __repr__(self):
        return f"SF({self.t})"


def fmax(a, b):
    a, b = fterm(a), fterm(b)
    return SF(z3.If(z3.fpGEQ(a, b), a, b))


def fmin(a, b):
    a, b = fterm(a), fterm(b)
    return SF(z3.If(z3.fpLEQ(a, b), a, b))


# ------------------------------------------------------------------------------------------------ numpy models

HINTS = {"arange_len": []}   # lengths assumed (not forked) for the next symbolic aranges, consumed in order


def arange(start, stop, step):
    e = sym.engine()
    s, t, d = fterm(start), fterm(stop), fterm(step)
    q = z3.fpDiv(RNE, z3.fpSub(RNE, t, s), d)
    if HINTS["arange_len"]:
        n = HINTS["arange_len"].pop(0)
        # ceil(q) == n   <=>   n-1 < q <= n   (integers are exact doubles)
        e.assume(z3.And(z3.fpGT(q, z3.FPVal(float(n - 1), F64)), z3.fpLEQ(q, z3.FPVal(float(n), F64))))
    else:
        n = 0
        while bool(SB(z3.fpGT(q, z3.FPVal(float(n), F64)))):
            n += 1
            if n > 64:
                raise sym.PathAbort("symbolic arange longer than bound")
    delta = z3.fpSub(RNE, z3.fpAdd(RNE, s, d), s)
    out = np.empty(n, dtype=object)
    for i in range(n):
        out[i] = SF(s) if i == 0 else SF(z3.fpAdd(RNE, s, z3.fpMul(RNE, z3.FPVal(float(i), F64), delta)))
    return out.view(sym.SymArray)


def linspace(start, stop, num, endpoint=True, retstep=False):
    if endpoint:
        raise HarnessError("FP linspace model only for endpoint=False")
    a, b = fterm(start), fterm(stop)
    step = z3.fpDiv(RNE, z3.fpSub(RNE, b, a), z3.FPVal(float(num), F64))
    out = np.empty(num, dtype=object)
    for i in range(num):
        out[i] = SF(z3.fpAdd(RNE, z3.fpMul(RNE, z3.FPVal(float(i), F64), step), a))
    out = out.view(sym.SymArray)
    return (out, SF(step)) if retstep else out


def np_arange_model(start, stop, step):
    """the same model on concrete doubles (for the self-test against numpy)"""
    q = (stop - start) / step
    n = max(int(math.ceil(q)), 0)
    delta = (start + step) - start
    return np.array([start if i == 0 else start + float(i) * delta for i in range(n)])


def np_linspace_model(a, b, n):
    step = (b - a) / float(n)
    return np.array([float(i) * step + a for i in range(n)]), step


# ------------------------------------------------------------------------------------------------ external portfolio

_FPVAL = re.compile(r"\(fp\s+#b([01])\s+#b([01]{11})\s+#b([01]{52})\)")


def _parse_values(txt):
    """{name: float} from a (get-value ...) answer with (fp #b.. #b.. #b..) literals; also +oo/-oo/NaN/zero forms"""
    out = {}
    for m in re.finditer(r"\(\s*([A-Za-z_][\w!.\[\]#]*)\s+(\(fp[^)]*\)|\(_ [+-]?(?:oo|zero|NaN)[^)]*\))\s*\)", txt):
        name, v = m.group(1), m.group(2)
        mm = _FPVAL.match(v)
        if mm:
            bits = int(mm.group(1) + mm.group(2) + mm.group(3), 2)
            out[name] = struct.unpack(">d", bits.to_bytes(8, "big"))[0]
        elif "NaN" in v:
            out[name] = math.nan
        elif "oo" in v:
            out[name] = -math.inf if "-oo" in v else math.inf
        elif "zero" in v:
            out[name] = -0.0 if "-zero" in v else 0.0
    return out


def solve_fp(assertions, names, timeout_s=120, stats=None):
    """('unsat'|'sat'|'unknown', model dict, solver name, seconds)"""
    sv = z3.Solver()
    sv.add(assertions)
    txt = sv.to_smt2()
    if names:
        txt += "\n(get-value (" + " ".join(names) + "))\n"
    t0 = time.time()
    # 1. cvc5 python API
    try:
        import cvc5
        slv = cvc5.Solver()
        slv.setOption("produce-models", "true")
        slv.setOption("tlimit-per", str(int(timeout_s * 1000)))
        p = cvc5.InputParser(slv)
        p.setStringInput(cvc5.InputLanguage.SMT_LIB_2_6, "(set-logic ALL)\n" + txt, "q")
        smgr = p.getSymbolManager()
        res, vals = None, ""
        while True:
            cmd = p.nextCommand()
            if cmd.isNull():
                break
            name = cmd.getCommandName() if hasattr(cmd, "getCommandName") else ""
            if "get-value" in str(name) and res != "sat":
                continue
            out = str(cmd.invoke(slv, smgr)).strip()
            if out in ("sat", "unsat", "unknown"):
                res = out
            elif out.startswith("(error"):
                res = "unknown"
                break
            elif res == "sat" and out.startswith("("):
                vals += out
        if res in ("sat", "unsat"):
            return res, _parse_values(vals), "cvc5-1.4.0", time.time() - t0
    except Exception:
        pass
    # 2. /usr/bin/z3 4.8.12
    z = shutil.which("z3")
    if z:
        fd, path = tempfile.mkstemp(suffix=".smt2", dir="/var/tmp")
        try:
            with os.fdopen(fd, "w") as f:
                f.write("(set-logic ALL)\n(set-option :produce-models true)\n" + txt)
            r = subprocess.run([z, f"-T:{int(timeout_s)}", path], capture_output=True, text=True, timeout=timeout_s + 30)
            lines = r.stdout.strip().splitlines()
            if lines and lines[0].strip() in ("sat", "unsat") and not any(l.startswith("(error") for l in lines[:1]):
                return lines[0].strip(), _parse_values(r.stdout), "z3-4.8.12", time.time() - t0
        except Exception:
            pass
        finally:
            try:
                os.unlink(path)
            except OSError:
                pass
    return "unknown", {}, "none", time.time() - t0


sym.EXTRA_SCALARS = (SF,)
