"""numpy stand-in bound to `virocon.<module>.np` for the duration of a symbolic harness.

Rule: if every argument is concrete the *real* numpy function runs.  Symbolic-aware versions exist only
for functions that need truth values of comparisons or that would force a float conversion; everything
else is numpy's own implementation working on object arrays (so shapes/broadcasting are numpy's).
Each override is validated against numpy by `vf.selftest`.
"""

from __future__ import annotations

import itertools
import math

import numpy as _np
import z3

from . import sym
from .sym import SR, SB, SymArray, If, HarnessError, is_sym, sarr, lift, engine

OVERRIDES = {}
HOOKS = {}  # pluggable environment stubs: 'savetxt', 'default_rng', 'RandomState', ...


def deep_strip(x):
    if isinstance(x, SymArray):
        return x.view(_np.ndarray)
    if isinstance(x, tuple):
        return tuple(deep_strip(e) for e in x)
    if isinstance(x, list):
        return [deep_strip(e) for e in x]
    if isinstance(x, dict):
        return {k: deep_strip(v) for k, v in x.items()}
    return x


def deep_wrap(x):
    if isinstance(x, _np.ndarray):
        if x.ndim == 0 and x.dtype == object:
            return x.item()
        return x.view(SymArray)
    if isinstance(x, tuple):
        return tuple(deep_wrap(e) for e in x)
    if isinstance(x, list):
        return [deep_wrap(e) for e in x]
    return x


def _symlists(x):
    """lists/tuples that contain symbolic values -> SymArray (so numpy dispatches to us)."""
    if isinstance(x, (list, tuple)) and is_sym(x):
        try:
            return _np.array(deep_strip(list(x)), dtype=object).view(SymArray)
        except ValueError:
            return x
    if isinstance(x, sym._symtypes()):
        a = _np.empty((), dtype=object)
        a[()] = x
        return a.view(SymArray)
    return x


def override(*names):
    def deco(f):
        for n in names:
            OVERRIDES[n] = f
        return f

    return deco


def _A(x):
    """to SymArray (object dtype only if needed)"""
    if isinstance(x, SymArray):
        return x
    if isinstance(x, _np.ndarray):
        return x.view(SymArray)
    if isinstance(x, sym._symtypes()):
        return _symlists(x)
    if isinstance(x, (list, tuple)):
        if is_sym(x):
            return _np.array(deep_strip(list(x)), dtype=object).view(SymArray)
        return _np.asarray(x).view(SymArray)
    return _np.asarray(x).view(SymArray)


def _O(x):
    """to object-dtype SymArray (copy)"""
    a = _A(x)
    if a.dtype != object:
        a = a.astype(object)
    return a.view(SymArray)


def _unbox(x):
    if isinstance(x, _np.ndarray) and x.ndim == 0:
        return x.item() if x.dtype == object else x[()]
    return x


# ---------------------------------------------------------------- constructors


@override("array")
def array(obj, dtype=None, copy=True, **kw):
    if dtype is not None and dtype is not object and is_sym(obj):
        dtype = object
    r = _np.array(deep_strip(obj), dtype=dtype, **kw)
    return r.view(SymArray)


@override("asarray")
def asarray(obj, dtype=None, **kw):
    if isinstance(obj, SymArray) and dtype is None:
        return obj
    if isinstance(obj, (SR, SB)):
        return obj  # 0-d: keep the scalar
    if isinstance(obj, sym.IntSymArray) and dtype in (float, _np.float64):
        # numpy converts an integer array to float64 by COPYING it (a float64 array is handed through)
        return _np.array(deep_strip(obj), dtype=object).view(SymArray)
    if dtype is not None and dtype is not object and is_sym(obj):
        dtype = object
    r = _np.asarray(deep_strip(obj), dtype=dtype, **kw)
    return r.view(SymArray)


@override("asarray_chkfinite")
def asarray_chkfinite(a, dtype=None, order=None):
    r = asarray(a, dtype=dtype)
    if isinstance(r, (SR, SB)):
        els = [r]
    elif r.dtype == object:
        els = list(r.view(_np.ndarray).flat)
    else:
        return _np.asarray_chkfinite(r.view(_np.ndarray)).view(SymArray)
    for e in els:
        if isinstance(e, SR):
            if e.nan is not None and bool(SB(e.nan)):
                raise ValueError("array must not contain infs or NaNs")
        elif isinstance(e, SB):
            pass
        elif not _np.isfinite(e):
            raise ValueError("array must not contain infs or NaNs")
    return r


def _shape(s):
    return tuple(s) if isinstance(s, (tuple, list)) else (int(s),)


@override("empty")
def empty(shape, dtype=None, **kw):
    if dtype in (int, bool, _np.int64, _np.bool_):
        return _np.empty(shape, dtype=dtype).view(SymArray)
    return _np.empty(shape, dtype=object).view(SymArray)


@override("zeros")
def zeros(shape, dtype=None, **kw):
    if dtype in (int, bool, _np.int64, _np.bool_):
        return _np.zeros(shape, dtype=dtype).view(SymArray)
    a = _np.empty(shape, dtype=object)
    a.fill(0.0)
    return a.view(SymArray)


@override("ones")
def ones(shape, dtype=None, **kw):
    if dtype in (int, bool, _np.int64, _np.bool_):
        return _np.ones(shape, dtype=dtype).view(SymArray)
    a = _np.empty(shape, dtype=object)
    a.fill(1.0)
    return a.view(SymArray)


def _shape_of(x):
    return () if isinstance(x, (SR, SB)) or _np.isscalar(x) else _A(x).shape


def _int_like(a, dtype):
    """numpy's *_like inherit the dtype: an integer-typed prototype gives an integer array, and values stored into
    it are truncated.  Modelled by an object array whose stores truncate (sym.IntSymArray)."""
    if dtype is not None or isinstance(a, (SR, SB)):
        return False
    try:
        return _np.asarray(a).dtype.kind in "iu"
    except Exception:
        return False


def _as_int_like(r, fill=None):
    o = _np.empty(r.shape, dtype=object)
    if fill is not None:
        o.fill(fill)
    return o.view(sym.IntSymArray)


@override("empty_like")
def empty_like(a, dtype=None, **kw):
    if _int_like(a, dtype):
        return _as_int_like(_np.asarray(a), 0)
    return empty(_shape_of(a), dtype=dtype)


@override("zeros_like")
def zeros_like(a, dtype=None, **kw):
    if _int_like(a, dtype):
        return _as_int_like(_np.asarray(a), 0)
    return zeros(_shape_of(a), dtype=dtype)


@override("ones_like")
def ones_like(a, dtype=None, **kw):
    if _int_like(a, dtype):
        return _as_int_like(_np.asarray(a), 1)
    return ones(_shape_of(a), dtype=dtype)


@override("matmul", "dot")
def matmul(a, b, out=None, **kw):
    A, B = _A(a), _A(b)
    if A.dtype != object and B.dtype != object:
        return deep_wrap(_np.matmul(A.view(_np.ndarray), B.view(_np.ndarray)))
    A, B = A.view(_np.ndarray), B.view(_np.ndarray)
    a1, b1 = A.ndim == 1, B.ndim == 1
    if a1:
        A = A.reshape(1, -1)
    if b1:
        B = B.reshape(-1, 1)
    if A.ndim != 2 or B.ndim != 2 or A.shape[1] != B.shape[0]:
        raise ValueError(f"matmul: shapes {A.shape} and {B.shape} not aligned")
    out_ = _np.empty((A.shape[0], B.shape[1]), dtype=object)
    for i in _np.arange(A.shape[0]):
        for j in _np.arange(B.shape[1]):
            acc = 0
            for k in _np.arange(A.shape[1]):
                acc = acc + A[i, k] * B[k, j]
            out_[i, j] = acc
    if a1 and b1:
        return out_[0, 0]
    if a1:
        out_ = out_[0, :]
    elif b1:
        out_ = out_[:, 0]
    return out_.view(SymArray)


@override("clip")
def clip(a, a_min=None, a_max=None, out=None, **kw):
    r = a
    if a_min is not None:
        r = _np.maximum(r, a_min)
    if a_max is not None:
        r = _np.minimum(r, a_max)
    return r


@override("copy")
def copy(a, **kw):
    return _A(a).view(_np.ndarray).copy().view(SymArray)


# ---------------------------------------------------------------- selection / reduction


@override("where")
def where(cond, x=None, y=None):
    if x is None and y is None:
        return nonzero(cond)
    c = _A(cond)
    if c.dtype != object and not is_sym(x) and not is_sym(y):
        return _np.where(c.view(_np.ndarray), deep_strip(x), deep_strip(y)).view(SymArray)
    f = _np.frompyfunc(If, 3, 1)
    r = f(c.view(_np.ndarray), deep_strip(_symlists(x)), deep_strip(_symlists(y)))
    return deep_wrap(r)


@override("nonzero")
def nonzero(a):
    a = _A(a)
    if a.dtype == object:
        m = _np.empty(a.shape, dtype=bool)
        b = a.view(_np.ndarray)
        for idx in _np.ndindex(a.shape):
            e = b[idx]
            if isinstance(e, SR):
                m[idx] = bool(e != 0)
            else:
                m[idx] = bool(e)
        return tuple(i.view(SymArray) for i in _np.nonzero(m))
    return tuple(i.view(SymArray) for i in _np.nonzero(a.view(_np.ndarray)))


@override("searchsorted")
def searchsorted(a, v, side="left", sorter=None):
    """insertion index into a sorted 1-d array: number of elements < v (left) or <= v (right)"""
    A = _A(a)
    if sorter is not None:
        raise HarnessError("searchsorted with a sorter is not modelled")
    if not is_sym(A) and not is_sym(v):
        return deep_wrap(_np.searchsorted(A.view(_np.ndarray).astype(float), deep_strip(v), side=side))
    elems = list(A.view(_np.ndarray).ravel())

    def one(val):
        c = 0
        for e in elems:
            below = (lift(e) < val) if side == "left" else (lift(e) <= val)
            c = c + If(below, 1, 0)
        return c

    if isinstance(v, (SR, SB)) or _np.ndim(v) == 0:
        return one(v if isinstance(v, (SR, SB)) else (v.item() if isinstance(v, _np.ndarray) else v))
    V = _A(v).view(_np.ndarray)
    out = _np.empty(V.shape, dtype=object)
    for idx in _np.ndindex(V.shape):
        out[idx] = one(V[idx])
    return out.view(SymArray)


@override("flatnonzero")
def flatnonzero(a):
    return nonzero(_A(a).ravel())[0]


@override("histogram")
def histogram(a, bins=10, range=None, density=None, weights=None):
    """np.histogram for explicit, increasing bin edges: bin k is [e_k, e_k+1), the last bin is closed on the right"""
    if weights is not None or density or _np.ndim(bins) != 1:
        if not is_sym(a) and not is_sym(bins):
            return _np.histogram(deep_strip(a), bins=deep_strip(bins), range=range, density=density, weights=weights)
        raise HarnessError("np.histogram is modelled for explicit bin edges without weights/density only")
    edges = list(_A(bins).view(_np.ndarray).ravel())
    vals = list(_A(a).view(_np.ndarray).ravel())
    if not is_sym(edges) and not is_sym(vals):
        h_, e_ = _np.histogram(_np.asarray(vals, dtype=float), bins=_np.asarray(edges, dtype=float))
        return h_.view(SymArray), e_.view(SymArray)
    nb = len(edges) - 1
    counts = _np.empty(nb, dtype=object)
    for k in _np.arange(nb):
        c = 0
        for v in vals:
            inside = sym.And(lift(v) >= edges[k], (lift(v) <= edges[k + 1]) if k == nb - 1 else (lift(v) < edges[k + 1]))
            c = c + If(inside, 1, 0)
        counts[k] = c
    return counts.view(SymArray), _A(bins)


def _reduce(uf, a, axis=None, keepdims=False, **kw):
    a = _A(a)
    if a.dtype != object:
        return deep_wrap(uf.reduce(a.view(_np.ndarray), axis=axis, keepdims=keepdims))
    return uf.reduce(a, axis=axis, keepdims=keepdims)


@override("max", "amax")
def amax(a, axis=None, out=None, keepdims=False, **kw):
    return _reduce(_np.maximum, a, axis, keepdims)


@override("min", "amin")
def amin(a, axis=None, out=None, keepdims=False, **kw):
    return _reduce(_np.minimum, a, axis, keepdims)


@override("sum")
def sum_(a, axis=None, dtype=None, out=None, keepdims=False, **kw):
    return _reduce(_np.add, a, axis, keepdims)


@override("prod")
def prod(a, axis=None, dtype=None, out=None, keepdims=False, **kw):
    return _reduce(_np.multiply, a, axis, keepdims)


@override("nansum")
def nansum(a, axis=None, **kw):
    a = _A(a)
    if a.dtype != object:
        return deep_wrap(_np.nansum(a.view(_np.ndarray), axis=axis, **kw))
    z = where(_np.isnan(a), 0.0, a)
    return _reduce(_np.add, z, axis, kw.get("keepdims", False))


@override("cumsum")
def cumsum(a, axis=None, **kw):
    a = _A(a)
    if axis is None:
        a = a.ravel()
        axis = 0
    if a.dtype != object:
        return _np.cumsum(a.view(_np.ndarray), axis=axis).view(SymArray)
    return _np.add.accumulate(a, axis=axis)


@override("mean")
def mean(a, axis=None, **kw):
    a = _A(a)
    if a.dtype != object:
        return deep_wrap(_np.mean(a.view(_np.ndarray), axis=axis, **kw))
    n = a.size if axis is None else a.shape[axis]
    return _reduce(_np.add, a, axis) / n


@override("std")
def std(a, axis=None, ddof=0, **kw):
    a = _A(a)
    if a.dtype != object:
        return deep_wrap(_np.std(a.view(_np.ndarray), axis=axis, ddof=ddof, **kw))
    n = a.size if axis is None else a.shape[axis]
    m = mean(a, axis=axis)
    d = a - m
    return _np.sqrt(_reduce(_np.add, d * d, axis) / (n - ddof))


@override("abs", "absolute")
def abs_(a):
    if isinstance(a, (SR, SB)):
        return abs(lift(a))
    return _np.absolute(_A(a))


@override("isclose")
def isclose(a, b, rtol=1e-05, atol=1e-08, equal_nan=False):
    if not is_sym(a) and not is_sym(b):
        return deep_wrap(_np.isclose(deep_strip(a), deep_strip(b), rtol=rtol, atol=atol, equal_nan=equal_nan))
    a_, b_ = _symlists(a), _symlists(b)
    r = _np.absolute(a_ - b_) <= (atol + rtol * _np.absolute(b_))   # numpy's documented formula (finite values)
    return _unbox(r) if isinstance(r, _np.ndarray) else r


@override("allclose")
def allclose(a, b, rtol=1e-05, atol=1e-08, equal_nan=False):
    r = isclose(a, b, rtol=rtol, atol=atol)
    if isinstance(r, _np.ndarray):
        return bool(_np.logical_and.reduce(_A(r).ravel()))
    return bool(r)


@override("size")
def size(a, axis=None):
    if isinstance(a, (SR, SB)):
        return 1
    return _np.size(deep_strip(a), axis)


@override("ravel")
def ravel(a, order="C"):
    return _A(a).ravel(order)


# ---------------------------------------------------------------- sorting


def _argsort_stable(vals):
    """stable ascending insertion sort; comparisons fork through SB.__bool__"""
    order = []
    for j, v in enumerate(vals):
        k = len(order)
        while k > 0 and bool(v < vals[order[k - 1]]):
            k -= 1
        order.insert(k, j)
    return order


@override("argsort")
def argsort(a, axis=-1, kind=None, order=None, **kw):
    a = _A(a)
    if a.dtype != object:
        return _np.argsort(a.view(_np.ndarray), axis=axis, kind=kind).view(SymArray)
    if a.ndim != 1:
        raise HarnessError("symbolic argsort only for 1-d arrays")
    return _np.array(_argsort_stable(list(a.view(_np.ndarray))), dtype=_np.intp).view(SymArray)


@override("sort")
def sort(a, axis=-1, kind=None, order=None, **kw):
    a = _A(a)
    if a.dtype != object:
        return _np.sort(a.view(_np.ndarray), axis=axis, kind=kind).view(SymArray)
    return a[argsort(a)]


MERGE_SORT = [False]


def _sorted_by_network(vals):
    """ascending order statistics without forking: identical terms are grouped (a sample made of few distinct
    symbolic points repeated many times), the distinct ones go through a min/max sorting network"""
    groups = []
    for v in vals:
        for g in groups:
            a = g[0]
            same = (a is v) or (isinstance(a, SR) and isinstance(v, SR) and a.t.eq(v.t)) or \
                   (not isinstance(a, (SR, SB)) and not isinstance(v, (SR, SB)) and a == v)
            if same:
                g[1] += 1
                break
        else:
            groups.append([v, 1])
    if any(c != groups[0][1] for _, c in groups):
        # different multiplicities: fall back to plain network over all values (small inputs only)
        items = list(vals)
        mult = 1
    else:
        items = [g[0] for g in groups]
        mult = groups[0][1]
    k = len(items)
    for i in range(k):                      # odd-even transposition network
        for j in range(i % 2, k - 1, 2):
            lo, hi = sym._e_min(items[j], items[j + 1]), sym._e_max(items[j], items[j + 1])
            items[j], items[j + 1] = lo, hi
    out = []
    for it in items:
        out.extend([it] * mult)
    return out


def _quantile_sorted(s, n, q):
    """numpy's default ('linear') quantile on a sorted 1-d sequence."""
    if not isinstance(q, (SR, SB)):
        q = float(q)
        if not (0.0 <= q <= 1.0):
            raise ValueError("Quantiles must be in the range [0, 1]")
        # numpy: virtual_index = q*(n-1); previous = floor, gamma = vi - previous; lerp
        vi = _np.float64(n - 1) * _np.float64(q)
        lo = int(math.floor(vi))
        hi = min(lo + 1, n - 1)
        g = float(vi - lo)
        if g == 0.0:
            return s[lo]
        return s[lo] + (s[hi] - s[lo]) * g
    vi = (n - 1) * q
    for lo in range(n - 1):
        if bool(vi < lo + 1):
            g = vi - lo
            return s[lo] + (s[lo + 1] - s[lo]) * g
    return s[n - 1]


@override("quantile")
def quantile(a, q, axis=None, **kw):
    a = _A(a)
    qs = q
    if a.dtype != object and not is_sym(q):
        return deep_wrap(_np.quantile(a.view(_np.ndarray), deep_strip(q), axis=axis, **kw))
    if axis is not None and a.ndim == 2 and axis in (0, 1, -1, -2):
        # quantile along one axis of a matrix: one 1-d quantile per row / column
        m = a.view(_np.ndarray)
        lines = [m[:, j] for j in _np.arange(m.shape[1])] if axis in (0, -2) else [m[i, :] for i in _np.arange(m.shape[0])]
        res = [quantile(l.view(SymArray), q, **kw) for l in lines]
        if isinstance(q, (SR, SB)) or _np.ndim(q) == 0:
            out = _np.empty(len(res), dtype=object)
            for i, r_ in enumerate(res):
                out[i] = r_
            return out.view(SymArray)
        raise HarnessError("symbolic quantile along an axis only for a scalar q")
    if axis is not None and a.ndim != 1:
        raise HarnessError("symbolic quantile only for 1-d arrays")
    a = _O(a.ravel())
    vals = list(a.view(_np.ndarray))
    if len(vals) > 8 or MERGE_SORT[0]:
        s = _sorted_by_network(vals)       # no forks: order statistics as min/max (ite) terms
    else:
        order = _argsort_stable(vals)
        s = [vals[i] for i in order]
    n = len(s)
    if isinstance(qs, (SR, SB)) or _np.ndim(qs) == 0:
        return _quantile_sorted(s, n, _unbox(qs))
    qa = _A(qs)
    out = _np.empty(qa.shape, dtype=object)
    for idx in _np.ndindex(qa.shape):
        out[idx] = _quantile_sorted(s, n, qa.view(_np.ndarray)[idx])
    return out.view(SymArray)


@override("median")
def median(a, axis=None, **kw):
    a = _A(a)
    if a.dtype != object:
        return deep_wrap(_np.median(a.view(_np.ndarray), axis=axis, **kw))
    return quantile(a, 0.5)


@override("isin")
def isin(element, test_elements, assume_unique=False, invert=False, **kw):
    if is_sym(element) or is_sym(test_elements):
        raise HarnessError("symbolic isin not supported")
    return _np.isin(deep_strip(element), deep_strip(test_elements), assume_unique=assume_unique, invert=invert).view(SymArray)


@override("unravel_index")
def unravel_index(indices, shape, **kw):
    return deep_wrap(_np.unravel_index(sym.concretize(_np.asarray(deep_strip(indices)), dtype=_np.intp), shape))


# ---------------------------------------------------------------- shape juggling (numpy's own code on object arrays)


def _passthru(name):
    real = getattr(_np, name)

    def f(*args, **kw):
        return deep_wrap(real(*deep_strip([_symlists(a) for a in args]), **deep_strip(kw)))

    f.__name__ = name
    OVERRIDES[name] = f
    return f


for _n in ("concatenate", "stack", "append", "atleast_1d", "atleast_2d", "tile", "outer", "diff", "split",
           "meshgrid", "reshape", "transpose", "squeeze", "expand_dims", "broadcast_to", "vstack", "hstack",
           "column_stack", "flip", "roll", "repeat", "take", "delete", "insert", "array_equal", "ndim", "shape"):
    _passthru(_n)


class _CClass:
    def __getitem__(self, key):
        if not isinstance(key, tuple):
            key = (key,)
        key = tuple(_symlists(k) for k in key)
        ks = []
        anyobj = any(isinstance(k, _np.ndarray) and k.dtype == object for k in key)
        for k in key:
            k = deep_strip(k)
            if anyobj and not isinstance(k, slice):
                k = _np.asarray(k, dtype=object)
            ks.append(k)
        return deep_wrap(_np.c_[tuple(ks)])


# ---------------------------------------------------------------- ranges (Real-mode models; concrete args -> numpy)


@override("linspace")
def linspace(start, stop, num=50, endpoint=True, retstep=False, dtype=None, axis=0):
    if sym.EXTRA_SCALARS and (isinstance(start, sym.EXTRA_SCALARS) or isinstance(stop, sym.EXTRA_SCALARS)):
        from . import fp
        return fp.linspace(start, stop, int(num), endpoint=endpoint, retstep=retstep)
    if not (is_sym(start) or is_sym(stop)):
        r = _np.linspace(deep_strip(start), deep_strip(stop), num=num, endpoint=endpoint, retstep=retstep, axis=axis)
        return deep_wrap(r)
    if _np.ndim(deep_strip(start)) or _np.ndim(deep_strip(stop)):
        raise HarnessError("symbolic linspace only for scalar endpoints")
    num = int(num)
    div = (num - 1) if endpoint else num
    step = (stop - start) / div if div > 0 else float("nan")
    out = _np.empty(num, dtype=object)
    for i in range(num):
        out[i] = start + i * step
    if endpoint and num > 1:
        out[-1] = stop + 0
    out = out.view(SymArray)
    return (out, step) if retstep else out


MAX_SYM_ARANGE = 64


@override("arange")
def arange(*args, dtype=None, **kw):
    if not is_sym(args):
        return _np.arange(*deep_strip(args), dtype=dtype).view(SymArray)
    if len(args) == 1:
        start, stop, step = 0, args[0], 1
    elif len(args) == 2:
        start, stop, step = args[0], args[1], 1
    else:
        start, stop, step = args
    if sym.EXTRA_SCALARS and any(isinstance(a, sym.EXTRA_SCALARS) for a in (start, stop, step)):
        from . import fp
        return fp.arange(start, stop, step)
    # numpy: len = ceil((stop - start)/step); v_i = start + i*step   (real arithmetic model)
    span = (stop - start) / step
    n = 0
    while bool(span > n):
        n += 1
        if n > MAX_SYM_ARANGE:
            raise sym.PathAbort("symbolic arange longer than bound")
    out = _np.empty(n, dtype=object)
    for i in range(n):
        out[i] = start + i * step
    return out.view(SymArray)


# ---------------------------------------------------------------- linalg


class _Linalg:
    LinAlgError = _np.linalg.LinAlgError

    @staticmethod
    def norm(x, ord=None, axis=None, keepdims=False):
        x = _A(x)
        if x.dtype != object:
            return deep_wrap(_np.linalg.norm(x.view(_np.ndarray), ord=ord, axis=axis, keepdims=keepdims))
        if ord not in (None, 2):
            raise HarnessError("only the 2-norm is supported symbolically")
        return _np.sqrt(_reduce(_np.add, x * x, axis, keepdims))

    @staticmethod
    def det(A):
        A = _A(A)
        n = A.shape[0]
        if n == 1:
            return A[0, 0]
        b = A.view(_np.ndarray)
        tot = 0
        for perm in itertools.permutations(range(n)):
            sgn = 1
            p = list(perm)
            for i in range(n):
                for j in range(i + 1, n):
                    if p[i] > p[j]:
                        sgn = -sgn
            term = sgn
            zero = False
            for i in range(n):
                e = b[i, p[i]]
                if not isinstance(e, (SR, SB)) and e == 0:
                    zero = True
                    break
                term = term * e
            if not zero:
                tot = tot + term
        return tot

    _ctr = itertools.count()

    @staticmethod
    def solve(A, b):
        A, bb = _A(A), _A(b)
        if A.dtype != object and bb.dtype != object:
            return _np.linalg.solve(A.view(_np.ndarray), bb.view(_np.ndarray)).view(SymArray)
        if not is_sym(A) and not is_sym(bb):
            return _np.linalg.solve(sym.concretize(A), sym.concretize(bb)).view(SymArray)
        n = A.shape[0]
        if bb.ndim != 1:
            raise HarnessError("symbolic solve only for vector right-hand sides")
        d = _Linalg.det(A)
        if not isinstance(d, (SR, SB)):
            singular = d == 0
        else:
            singular = bool(d == 0)
        if singular:
            raise _np.linalg.LinAlgError("Singular matrix")
        # Cramer's rule: closed-form rational expressions (no fresh unknowns, so no bilinear side constraints)
        Ab = A.view(_np.ndarray)
        bv = bb.view(_np.ndarray)
        xs = []
        for i in range(n):
            Ai = Ab.copy()
            Ai[:, i] = bv
            xs.append(_Linalg.det(Ai.view(SymArray)) / d)
        out = _np.empty(n, dtype=object)
        out[:] = xs
        return out.view(SymArray)


# ---------------------------------------------------------------- random / io / testing


class _Random:
    Generator = _np.random.Generator

    def __getattr__(self, name):
        if name in HOOKS:
            return HOOKS[name]
        return getattr(_np.random, name)


class _Testing:
    @staticmethod
    def assert_allclose(actual, desired, rtol=1e-7, atol=0, **kw):
        if "assert_allclose" in HOOKS:
            return HOOKS["assert_allclose"](actual, desired, rtol=rtol, atol=atol)
        return _np.testing.assert_allclose(sym.concretize(_A(actual)), sym.concretize(_A(desired)), rtol=rtol, atol=atol)

    def __getattr__(self, name):
        return getattr(_np.testing, name)


def _savetxt(*a, **kw):
    if "savetxt" in HOOKS:
        return HOOKS["savetxt"](*a, **kw)
    return _np.savetxt(*deep_strip(a), **deep_strip(kw))


OVERRIDES["savetxt"] = _savetxt


class NumpyProxy:
    """what `np` means inside virocon while a symbolic harness runs"""

    c_ = _CClass()
    linalg = _Linalg()
    random = _Random()
    testing = _Testing()

    def __getattr__(self, name):
        if name in OVERRIDES:
            return OVERRIDES[name]
        real = getattr(_np, name)
        if isinstance(real, _np.ufunc):
            def uf(*args, _real=real, **kw):
                args = [_symlists(a) for a in args]
                return _real(*args, **kw)
            uf.__name__ = name
            for m in ("reduce", "accumulate", "outer"):
                setattr(uf, m, getattr(real, m))
            return uf
        if callable(real) and not isinstance(real, type):
            def fn(*args, _real=real, **kw):
                args = [_symlists(a) for a in args]
                if any(isinstance(a, SymArray) and a.dtype == object for a in args):
                    return _real(*args, **kw)  # dispatches through SymArray.__array_function__
                return deep_wrap(_real(*deep_strip(args), **deep_strip(kw)))
            fn.__name__ = name
            return fn
        return real


NPX = NumpyProxy()


class MathProxy:
    pi = math.pi
    e = math.e
    inf = math.inf

    def __getattr__(self, name):
        real = getattr(math, name)
        if name in ("exp", "log", "log10", "sqrt", "cos", "sin", "tan", "atan", "asin", "acos", "log2"):
            def f(x, _n=name):
                if isinstance(x, (SR, SB)):
                    return sym.kfun({"atan": "arctan", "asin": "arcsin", "acos": "arccos"}.get(_n, _n), x)
                return real(x)
            return f
        table = {"floor": sym._e_floor, "ceil": sym._e_ceil, "trunc": sym._e_trunc, "fabs": abs,
                 "isnan": sym._e_isnan, "isfinite": sym._e_isfinite, "isinf": sym._e_isinf,
                 "hypot": sym._e_hypot, "pow": sym.spow, "fmod": None, "isclose": None}
        if name in table and table[name] is not None:
            impl = table[name]

            def g(*a, _impl=impl, _real=real):
                if any(isinstance(x, (SR, SB)) for x in a):
                    return _impl(*a)
                return _real(*a)
            return g
        if name == "isclose":
            def isclose_(a, b, *, rel_tol=1e-09, abs_tol=0.0):
                if not any(isinstance(x, (SR, SB)) for x in (a, b, rel_tol, abs_tol)):
                    return real(a, b, rel_tol=rel_tol, abs_tol=abs_tol)
                # documented: abs(a-b) <= max(rel_tol * max(abs(a), abs(b)), abs_tol)
                a, b = lift(a), lift(b)
                d = abs(a - b)
                big = sym._e_max(abs(a), abs(b))
                return sym.Or(d <= rel_tol * big, d <= abs_tol)
            return isclose_

        def guard(*a, _real=real, **k):
            if any(isinstance(x, (SR, SB)) for x in a):
                raise HarnessError(f"math.{name} has no symbolic implementation")
            return _real(*a, **k)
        return guard if callable(real) else real


MATHX = MathProxy()


# ---------------------------------------------------------------- scipy.ndimage (compiled): concrete arrays only


class NdiProxy:
    """scipy.ndimage runs for real; a symbolic element reaching it is a harness error (masks are concrete per path)"""

    def __getattr__(self, name):
        import scipy.ndimage as _ndi
        real = getattr(_ndi, name)

        def f(*args, **kw):
            a = [sym.concretize(x) if isinstance(x, _np.ndarray) else x for x in args]
            k = {n: (sym.concretize(v) if isinstance(v, _np.ndarray) else v) for n, v in kw.items()}
            return deep_wrap(real(*a, **k))

        return f


NDIX = NdiProxy()
