"""symx core: symbolic scalars over z3, a re-execution path explorer, symbolic numpy arrays.

The values defined here flow through virocon's *real* functions (no model of virocon exists):
 * SR  - a real-valued term (z3 Real), with an optional NaN flag
 * SB  - a boolean term; `bool(SB)` asks the Engine to decide the branch (fork by re-execution)
 * SymArray - ndarray subclass (usually dtype=object) whose ufuncs are routed to symbolic-aware
   element functions, so that e.g. `a <= x` yields an array of SB instead of forcing bool().
"""

from __future__ import annotations

import fractions
import math
import operator
import time

import sys

import numpy as np
import numpy as _np_top
import z3

if hasattr(sys, "set_int_max_str_digits"):
    sys.set_int_max_str_digits(0)  # solver models may carry rationals with thousands of digits

__all__ = [
    "SR", "SB", "SymArray", "Engine", "engine", "set_engine", "HarnessError", "PathAbort",
    "is_sym", "lift", "sarr", "concretize", "If", "And", "Or", "Not",
]


class HarnessError(Exception):
    """The harness (not virocon) is wrong or out of date: fail closed (exit 3)."""


class PathAbort(BaseException):
    """Abort the current path (budget exhausted / infeasible).  BaseException on purpose."""


_ENGINE = None


def engine() -> "Engine":
    if _ENGINE is None:
        raise HarnessError("no symbolic engine active")
    return _ENGINE


def set_engine(e):
    global _ENGINE
    _ENGINE = e


# --------------------------------------------------------------------------------------------
# lifting of Python / numpy numbers to exact z3 reals


def _q(x: float):
    fr = fractions.Fraction(x)
    if fr.denominator == 1:
        return z3.RealVal(fr.numerator)
    return z3.RealVal(f"{fr.numerator}/{fr.denominator}")


class NonFinite(HarnessError):
    pass


def rterm(x):
    """z3 Real term of a scalar."""
    if isinstance(x, SR):
        return x.t
    if isinstance(x, SB):
        return z3.If(x.t, z3.RealVal(1), z3.RealVal(0))
    if isinstance(x, (bool, np.bool_)):
        return z3.RealVal(int(x))
    if isinstance(x, (int, np.integer)):
        return z3.RealVal(int(x))
    if isinstance(x, (float, np.floating)):
        xf = float(x)
        if math.isnan(xf) or math.isinf(xf):
            raise NonFinite(f"non-finite constant {xf} in symbolic real arithmetic")
        return _q(xf)
    if isinstance(x, fractions.Fraction):
        return z3.RealVal(f"{x.numerator}/{x.denominator}")
    if isinstance(x, np.ndarray) and x.ndim == 0:
        return rterm(x.item())
    raise HarnessError(f"cannot lift {type(x).__name__} to a symbolic real")


def nanflag(x):
    if isinstance(x, SR):
        return x.nan
    if isinstance(x, (float, np.floating)) and math.isnan(float(x)):
        return z3.BoolVal(True)
    return None


def _or_nan(a, b):
    if a is None:
        return b
    if b is None:
        return a
    return z3.Or(a, b)


def bterm(x):
    if isinstance(x, SB):
        return x.t
    if isinstance(x, (bool, np.bool_)):
        return z3.BoolVal(bool(x))
    if isinstance(x, (int, np.integer)) and x in (0, 1):
        return z3.BoolVal(bool(x))
    if isinstance(x, SR):
        return x.t != 0
    if isinstance(x, np.ndarray) and x.ndim == 0:
        return bterm(x.item())
    raise HarnessError(f"cannot lift {type(x).__name__} to a symbolic bool")


EXTRA_SCALARS = ()   # further symbolic scalar classes (vf.fp.SF registers itself here)


def _symtypes():
    return (SR, SB) + EXTRA_SCALARS


def is_sym(x) -> bool:
    if isinstance(x, _symtypes()):
        return True
    if isinstance(x, np.ndarray):
        if x.dtype != object:
            return False
        return any(isinstance(e, _symtypes()) for e in x.flat)
    if isinstance(x, (list, tuple)):
        return any(is_sym(e) for e in x)
    return False


def _is_num(x):
    return isinstance(x, (int, float, np.integer, np.floating, bool, np.bool_, fractions.Fraction))


def _const_value(t):
    """float value if the z3 term is a numeral, else None (cheap test)."""
    if z3.is_rational_value(t):
        return t
    return None


# --------------------------------------------------------------------------------------------
# scalars


class SB:
    __slots__ = ("t",)
    __array_priority__ = 1000
    shape = ()
    ndim = 0
    size = 1

    def __init__(self, t):
        self.t = t

    def __bool__(self):
        return engine().decide(self.t)

    def __and__(self, o):
        if isinstance(o, np.ndarray):
            return NotImplemented
        return SB(z3.And(self.t, bterm(o)))

    __rand__ = __and__

    def __or__(self, o):
        if isinstance(o, np.ndarray):
            return NotImplemented
        return SB(z3.Or(self.t, bterm(o)))

    __ror__ = __or__

    def __xor__(self, o):
        if isinstance(o, np.ndarray):
            return NotImplemented
        return SB(z3.Xor(self.t, bterm(o)))

    __rxor__ = __xor__

    def __invert__(self):
        return SB(z3.Not(self.t))

    def __eq__(self, o):
        if isinstance(o, np.ndarray):
            return NotImplemented
        if isinstance(o, (SB, bool, np.bool_)):
            return SB(self.t == bterm(o))
        return SR(rterm(self)) == o

    def __ne__(self, o):
        r = self.__eq__(o)
        return r if r is NotImplemented else ~r

    __hash__ = object.__hash__

    # arithmetic on booleans (e.g. mask.sum())
    def _r(self):
        return SR(rterm(self))

    def __add__(self, o):
        return NotImplemented if isinstance(o, np.ndarray) else self._r() + o

    def __radd__(self, o):
        return NotImplemented if isinstance(o, np.ndarray) else o + self._r()

    def __sub__(self, o):
        return NotImplemented if isinstance(o, np.ndarray) else self._r() - o

    def __rsub__(self, o):
        return NotImplemented if isinstance(o, np.ndarray) else o - self._r()

    def __mul__(self, o):
        return NotImplemented if isinstance(o, np.ndarray) else self._r() * o

    def __rmul__(self, o):
        return NotImplemented if isinstance(o, np.ndarray) else o * self._r()

    def __truediv__(self, o):
        return NotImplemented if isinstance(o, np.ndarray) else self._r() / o

    def __array_ufunc__(self, ufunc, method, *inputs, **kw):
        return _scalar_array_ufunc(self, ufunc, method, *inputs, **kw)

    def __repr__(self):
        return f"SB({self.t})"


def _cmp(op):
    def f(self, o):
        if isinstance(o, np.ndarray) and o.ndim > 0:
            return NotImplemented
        if isinstance(o, (float, np.floating)) and math.isinf(float(o)):
            of = float(o)
            res = {"lt": of > 0, "le": of > 0, "gt": of < 0, "ge": of < 0, "eq": False, "ne": True}[op]
            t = z3.BoolVal(res)
        elif isinstance(o, (float, np.floating)) and math.isnan(float(o)):
            t = z3.BoolVal(op == "ne")
        else:
            a, b = self.t, rterm(o)
            t = {"lt": a < b, "le": a <= b, "gt": a > b, "ge": a >= b, "eq": a == b, "ne": a != b}[op]
        nan = _or_nan(self.nan, nanflag(o) if isinstance(o, SR) else None)
        if nan is not None:
            t = z3.Or(nan, t) if op == "ne" else z3.And(z3.Not(nan), t)
        return SB(t)

    return f


class SR:
    """Symbolic real.  `nan` is None (never NaN) or a z3 Bool meaning 'this value is NaN'."""

    __slots__ = ("t", "nan")
    __array_priority__ = 1000
    shape = ()
    ndim = 0
    size = 1

    def __init__(self, t, nan=None):
        self.t = t
        self.nan = nan

    # ---- arithmetic
    def _bin(self, o, f, swap=False):
        if isinstance(o, np.ndarray) and o.ndim > 0:
            return NotImplemented
        if not isinstance(o, (SR, SB, np.ndarray)) and not _is_num(o):
            return NotImplemented       # e.g. a dual number: let the other operand's reflected method handle it
        if isinstance(o, (float, np.floating)) and math.isnan(float(o)):
            return SR(self.t, z3.BoolVal(True))
        b = rterm(o)
        t = f(b, self.t) if swap else f(self.t, b)
        return SR(t, _or_nan(self.nan, nanflag(o)))

    def __add__(self, o):
        return self._bin(o, operator.add)

    def __radd__(self, o):
        return self._bin(o, operator.add, True)

    def __sub__(self, o):
        return self._bin(o, operator.sub)

    def __rsub__(self, o):
        return self._bin(o, operator.sub, True)

    def __mul__(self, o):
        return self._bin(o, operator.mul)

    def __rmul__(self, o):
        return self._bin(o, operator.mul, True)

    def __truediv__(self, o):
        if isinstance(o, np.ndarray) and o.ndim > 0:
            return NotImplemented
        if not isinstance(o, (SR, SB, np.ndarray)) and not _is_num(o):
            return NotImplemented
        if isinstance(o, (float, np.floating)) and math.isinf(float(o)):
            return SR(z3.RealVal(0), self.nan)
        b = rterm(o)
        engine().note_division(b)
        return SR(_div(self.t, b), _or_nan(self.nan, nanflag(o)))

    def __rtruediv__(self, o):
        if isinstance(o, np.ndarray) and o.ndim > 0:
            return NotImplemented
        if not isinstance(o, (SR, SB, np.ndarray)) and not _is_num(o):
            return NotImplemented
        engine().note_division(self.t)
        return SR(_div(rterm(o), self.t), _or_nan(self.nan, nanflag(o)))

    def __bool__(self):
        # Python truthiness of a float: x != 0 (NaN is truthy)
        t = self.t != 0
        if self.nan is not None:
            t = z3.Or(self.nan, t)
        return engine().decide(t)

    def __neg__(self):
        return SR(-self.t, self.nan)

    def __pos__(self):
        return self

    def __mod__(self, o):
        return _e_mod(self, o)

    def __rmod__(self, o):
        return _e_mod(o, self)

    def __floordiv__(self, o):
        return _e_floordiv(self, o)

    def __rfloordiv__(self, o):
        return _e_floordiv(o, self)

    def __abs__(self):
        return SR(z3.If(self.t >= 0, self.t, -self.t), self.nan)

    def __pow__(self, o):
        if isinstance(o, np.ndarray) and o.ndim > 0:
            return NotImplemented
        return spow(self, o)

    def __rpow__(self, o):
        if isinstance(o, np.ndarray) and o.ndim > 0:
            return NotImplemented
        return spow(o, self)

    __lt__ = _cmp("lt")
    __le__ = _cmp("le")
    __gt__ = _cmp("gt")
    __ge__ = _cmp("ge")
    __eq__ = _cmp("eq")
    __ne__ = _cmp("ne")
    __hash__ = object.__hash__

    # numpy's object loops call these method names
    def exp(self):
        return kfun("exp", self)

    def log(self):
        return kfun("log", self)

    def log10(self):
        return kfun("log10", self)

    def sqrt(self):
        return kfun("sqrt", self)

    def cos(self):
        return kfun("cos", self)

    def sin(self):
        return kfun("sin", self)

    def square(self):
        return self * self

    def conjugate(self):
        return self

    def __array_ufunc__(self, ufunc, method, *inputs, **kw):
        return _scalar_array_ufunc(self, ufunc, method, *inputs, **kw)

    def __repr__(self):
        return f"SR({self.t})" if self.nan is None else f"SR({self.t}, nan={self.nan})"


def _div(a, b):
    """a / b; in 'flatten' mode a quotient by a non-constant becomes a fresh q with q*b == a (b != 0 is assumed by
    note_division): nlsat decides polynomial systems without division far better than terms with division"""
    e = engine()
    if not e.flatten_div or z3.is_rational_value(b) or z3.is_rational_value(z3.simplify(b)):
        return a / b
    key = (a.get_id(), b.get_id())
    hit = e._divs.get(key)
    if hit is not None and hit[0].eq(a) and hit[1].eq(b):
        return hit[2]
    q = z3.Real(f"quot!{len(e._divs)}")
    e._divs[key] = (a, b, q)
    e.axiom(q * b == a)
    return q


def lift(x) -> SR:
    return x if isinstance(x, SR) else SR(rterm(x), nanflag(x))


def If(c, a, b):
    """Merge (no fork)."""
    if isinstance(c, (bool, np.bool_)):
        return a if c else b
    ct = bterm(c)
    if isinstance(a, (SB, bool, np.bool_)) and isinstance(b, (SB, bool, np.bool_)):
        return SB(z3.If(ct, bterm(a), bterm(b)))
    if EXTRA_SCALARS and (isinstance(a, EXTRA_SCALARS) or isinstance(b, EXTRA_SCALARS)):
        from . import fp
        return fp.SF(z3.If(ct, fp.fterm(a), fp.fterm(b)))
    na, nb = nanflag(a), nanflag(b)
    nan = None
    if na is not None or nb is not None:
        nan = z3.If(ct, na if na is not None else z3.BoolVal(False), nb if nb is not None else z3.BoolVal(False))
    ta = z3.RealVal(0) if (isinstance(a, (float, np.floating)) and math.isnan(float(a))) else rterm(a)
    tb = z3.RealVal(0) if (isinstance(b, (float, np.floating)) and math.isnan(float(b))) else rterm(b)
    return SR(z3.If(ct, ta, tb), nan)


def And(*xs):
    return SB(z3.And(*[bterm(x) for x in xs]))


def Or(*xs):
    return SB(z3.Or(*[bterm(x) for x in xs]))


def Not(x):
    return SB(z3.Not(bterm(x)))


# --------------------------------------------------------------------------------------------
# primitive real functions as uninterpreted kernels with instance axioms

_REAL = z3.RealSort()
_UF = {}


def uf(name, arity):
    key = (name, arity)
    if key not in _UF:
        _UF[key] = z3.Function(name, *([_REAL] * arity), _REAL)
    return _UF[key]


_MATH1 = {
    "exp": math.exp, "log": math.log, "log10": math.log10, "sqrt": math.sqrt,
    "cos": math.cos, "sin": math.sin,
}


def _purified(e, name, args):
    """transcendental kernels as fresh reals with functional consistency only (same argument terms -> same value):
    for identities that do not depend on what the kernel computes; keeps the query polynomial"""
    key = (name,) + tuple(a.get_id() for a in args)
    hit = e.purified.get(key)
    if hit is None:
        v = z3.Real(f"{name}!{len(e.purified)}")
        hit = (args, v)
        e.purified[key] = hit
        e.purified_by_var[v.get_id()] = (name, args, v)
        e.stats["kernels"].add(name + " (purified)")
    return hit[1]


def kfun(name, x):
    """exp/log/log10/sqrt/cos/sin of a scalar (symbolic or not)."""
    if not isinstance(x, (SR, SB)):
        if isinstance(x, np.ndarray):
            x = x.item()
        return getattr(np, name)(x)
    x = lift(x)
    e = engine()
    if e.purify:
        return SR(_purified(e, name, (x.t,)), x.nan)
    f = uf(name, 1)
    t = x.t
    # smart constructors for inverse pairs
    if name == "log" and z3.is_app(t) and t.decl().name() == "exp" and t.num_args() == 1:
        return SR(t.arg(0), x.nan)
    v = f(t)
    if name == "exp":
        e.axiom(v > 0)
        e.axiom(uf("log", 1)(v) == t)
    elif name == "log":
        e.axiom(z3.Implies(t > 0, uf("exp", 1)(v) == t))
        e.note_domain(t > 0, "log of non-positive")
    elif name == "log10":
        # log10 y = log y / log 10 is not needed; keep it opaque but injective on positives
        e.axiom(z3.Implies(t > 0, uf("pow", 2)(z3.RealVal(10), v) == t))
        e.note_domain(t > 0, "log10 of non-positive")
    elif name == "sqrt":
        e.axiom(z3.Implies(t >= 0, z3.And(v >= 0, v * v == t)))
        e.note_domain(t >= 0, "sqrt of negative")
    elif name in ("cos", "sin"):
        c, s = uf("cos", 1)(t), uf("sin", 1)(t)
        e.axiom(c * c + s * s == 1)
    e.stats["kernels"].add(name)
    return SR(v, x.nan)


def spow(a, b):
    """a ** b"""
    if not isinstance(a, (SR, SB)) and not isinstance(b, (SR, SB)):
        return a ** b
    if _is_num(b) or (isinstance(b, SR) and z3.is_rational_value(z3.simplify(b.t)) and b.nan is None):
        bv = b
        if isinstance(b, SR):
            sv = z3.simplify(b.t)
            bv = fractions.Fraction(sv.numerator_as_long(), sv.denominator_as_long())
        bf = fractions.Fraction(bv)
        a = lift(a)
        if bf.denominator == 1 and abs(bf.numerator) <= 8:
            n = int(bf.numerator)
            if n == 0:
                return SR(z3.RealVal(1), a.nan)
            t = a.t
            for _ in range(abs(n) - 1):
                t = t * a.t
            if n < 0:
                engine().note_division(a.t)
                t = 1 / t
            return SR(t, a.nan)
        if bf == fractions.Fraction(1, 2):
            return kfun("sqrt", a)
    a, b = lift(a), lift(b)
    e = engine()
    if e.purify:
        return SR(_purified(e, "pow", (a.t, b.t)), _or_nan(a.nan, b.nan))
    v = uf("pow", 2)(a.t, b.t)
    e.axiom(z3.Implies(a.t > 0, v > 0))
    # pow(10, log10 y) = y is given where log10 is created
    e.stats["kernels"].add("pow")
    return SR(v, _or_nan(a.nan, b.nan))


# --------------------------------------------------------------------------------------------
# element functions used by ufunc routing


def _e_max(a, b):
    if _is_num(a) and _is_num(b):
        return max(a, b)
    if EXTRA_SCALARS and (isinstance(a, EXTRA_SCALARS) or isinstance(b, EXTRA_SCALARS)):
        from . import fp
        return fp.fmax(a, b)
    a, b = lift(a), lift(b)
    return SR(z3.If(a.t >= b.t, a.t, b.t), _or_nan(a.nan, b.nan))


def _e_min(a, b):
    if _is_num(a) and _is_num(b):
        return min(a, b)
    if EXTRA_SCALARS and (isinstance(a, EXTRA_SCALARS) or isinstance(b, EXTRA_SCALARS)):
        from . import fp
        return fp.fmin(a, b)
    a, b = lift(a), lift(b)
    return SR(z3.If(a.t <= b.t, a.t, b.t), _or_nan(a.nan, b.nan))


def _e_land(a, b):
    if not isinstance(a, (SR, SB)) and not isinstance(b, (SR, SB)):
        return bool(a) and bool(b)
    return SB(z3.And(bterm(a), bterm(b)))


def _e_lor(a, b):
    if not isinstance(a, (SR, SB)) and not isinstance(b, (SR, SB)):
        return bool(a) or bool(b)
    return SB(z3.Or(bterm(a), bterm(b)))


def _e_lnot(a):
    if not isinstance(a, (SR, SB)):
        return not bool(a)
    return SB(z3.Not(bterm(a)))


def _e_isnan(a):
    if isinstance(a, SR):
        return SB(a.nan) if a.nan is not None else False
    if isinstance(a, SB):
        return False
    return bool(np.isnan(a))


def _e_isfinite(a):
    if isinstance(a, SR):
        return SB(z3.Not(a.nan)) if a.nan is not None else True
    if isinstance(a, SB):
        return True
    return bool(np.isfinite(a))


def _e_abs(a):
    return abs(a)


def _e_sign(a):
    if isinstance(a, (SR, SB)):
        a = lift(a)
        return SR(z3.If(a.t > 0, z3.RealVal(1), z3.If(a.t < 0, z3.RealVal(-1), z3.RealVal(0))), a.nan)
    return np.sign(a)


def _m1(name):
    def f(a):
        if isinstance(a, (SR, SB)):
            return kfun(name, a)
        return getattr(np, name)(a)

    return f


def _e_square(a):
    return a * a


def _e_recip(a):
    return 1 / a


def _e_bitand(a, b):
    if isinstance(a, (SB, bool, np.bool_)) or isinstance(b, (SB, bool, np.bool_)):
        return _e_land(a, b)
    return a & b


def _e_bitor(a, b):
    if isinstance(a, (SB, bool, np.bool_)) or isinstance(b, (SB, bool, np.bool_)):
        return _e_lor(a, b)
    return a | b


def _e_invert(a):
    if isinstance(a, (SB, bool, np.bool_)):
        return _e_lnot(a)
    return ~a


def _e_div(a, b):
    if _is_num(a) and _is_num(b):
        return np.float64(a) / np.float64(b)
    return a / b


def _e_floor(a):
    if isinstance(a, SR):
        return SR(z3.ToReal(z3.ToInt(a.t)), a.nan)
    return np.floor(a)


def _e_ceil(a):
    if isinstance(a, SR):
        return SR(-z3.ToReal(z3.ToInt(-a.t)), a.nan)
    return np.ceil(a)


def _e_trunc(a):
    if isinstance(a, SR):
        return SR(z3.If(a.t >= 0, z3.ToReal(z3.ToInt(a.t)), -z3.ToReal(z3.ToInt(-a.t))), a.nan)
    return np.trunc(a)


def _e_floordiv(a, b):
    if isinstance(a, SR) or isinstance(b, SR):
        return _e_floor(lift(a) / lift(b))
    return np.floor_divide(a, b)


def _e_mod(a, b):
    """numpy / Python remainder: a - b * floor(a / b) (sign of the divisor)"""
    if isinstance(a, SR) or isinstance(b, SR):
        return lift(a) - lift(b) * _e_floor(lift(a) / lift(b))
    return np.remainder(a, b)


def _e_log1p(a):
    return _m1("log")(1 + a) if isinstance(a, (SR, SB)) else np.log1p(a)


def _e_expm1(a):
    return _m1("exp")(a) - 1 if isinstance(a, (SR, SB)) else np.expm1(a)


def _e_hypot(a, b):
    if isinstance(a, (SR, SB)) or isinstance(b, (SR, SB)):
        return _m1("sqrt")(lift(a) * lift(a) + lift(b) * lift(b))
    return np.hypot(a, b)


def _e_arctan2(a, b):
    if isinstance(a, (SR, SB)) or isinstance(b, (SR, SB)):
        a, b = lift(a), lift(b)
        return SR(uf("arctan2", 2)(a.t, b.t), _or_nan(a.nan, b.nan))       # opaque
    return np.arctan2(a, b)


def _e_isinf(a):
    if isinstance(a, SR):
        return SB(z3.BoolVal(False))       # symbolic reals are finite or NaN
    return np.isinf(a)


UFUNC_IMPL = {
    np.add: (operator.add, 2), np.subtract: (operator.sub, 2), np.multiply: (operator.mul, 2),
    np.true_divide: (_e_div, 2), np.negative: (operator.neg, 1), np.positive: (operator.pos, 1),
    np.power: (spow, 2), np.square: (_e_square, 1), np.reciprocal: (_e_recip, 1),
    np.absolute: (_e_abs, 1), np.fabs: (_e_abs, 1), np.sign: (_e_sign, 1),
    np.maximum: (_e_max, 2), np.minimum: (_e_min, 2), np.fmax: (_e_max, 2), np.fmin: (_e_min, 2),
    np.less: (operator.lt, 2), np.less_equal: (operator.le, 2), np.greater: (operator.gt, 2),
    np.greater_equal: (operator.ge, 2), np.equal: (operator.eq, 2), np.not_equal: (operator.ne, 2),
    np.logical_and: (_e_land, 2), np.logical_or: (_e_lor, 2), np.logical_not: (_e_lnot, 1),
    np.bitwise_and: (_e_bitand, 2), np.bitwise_or: (_e_bitor, 2), np.invert: (_e_invert, 1),
    np.isnan: (_e_isnan, 1), np.isfinite: (_e_isfinite, 1),
    np.exp: (_m1("exp"), 1), np.log: (_m1("log"), 1), np.log10: (_m1("log10"), 1),
    np.sqrt: (_m1("sqrt"), 1), np.cos: (_m1("cos"), 1), np.sin: (_m1("sin"), 1),
    np.conjugate: (lambda a: a, 1),
    np.tan: (_m1("tan"), 1), np.arctan: (_m1("arctan"), 1), np.arcsin: (_m1("arcsin"), 1), np.arccos: (_m1("arccos"), 1),
    np.tanh: (_m1("tanh"), 1), np.sinh: (_m1("sinh"), 1), np.cosh: (_m1("cosh"), 1), np.log2: (_m1("log2"), 1),
    np.cbrt: (_m1("cbrt"), 1), np.log1p: (_e_log1p, 1), np.expm1: (_e_expm1, 1), np.hypot: (_e_hypot, 2),
    np.arctan2: (_e_arctan2, 2), np.float_power: (spow, 2), np.isinf: (_e_isinf, 1),
    np.floor: (_e_floor, 1), np.ceil: (_e_ceil, 1), np.trunc: (_e_trunc, 1),
    np.floor_divide: (_e_floordiv, 2), np.remainder: (_e_mod, 2),
}
_PYUF = {}


def _pyuf(ufunc):
    if ufunc not in _PYUF:
        impl = UFUNC_IMPL.get(ufunc)
        if impl is None:
            raise HarnessError(f"numpy ufunc {ufunc.__name__} has no symbolic implementation")
        _PYUF[ufunc] = np.frompyfunc(impl[0], impl[1], 1)
    return _PYUF[ufunc]


def _strip(x):
    if isinstance(x, SymArray):
        return x.view(np.ndarray)
    if isinstance(x, _symtypes()):
        a = np.empty((), dtype=object)
        a[()] = x
        return a
    return x


def _wrap(r):
    if isinstance(r, np.ndarray):
        if r.ndim == 0 and r.dtype == object:
            return r.item()
        return r.view(SymArray)
    if isinstance(r, tuple):
        return tuple(_wrap(e) for e in r)
    return r


def _tidy(r):
    """object array whose elements are all concrete bools -> bool array (so it can be used as a mask
    by real numpy); leave everything else alone."""
    if isinstance(r, np.ndarray) and r.dtype == object and r.size > 0:
        flat = list(r.flat)
        if all(isinstance(e, (bool, np.bool_)) for e in flat):
            return r.astype(bool)
    return r


def _apply_ufunc(ufunc, method, inputs, kw):
    if ufunc is np.matmul and method == "__call__":
        from . import npx
        return npx.matmul(*inputs)
    out = kw.pop("out", None)
    kw.pop("dtype", None)
    kw.pop("casting", None)
    kw.pop("subok", None)
    if kw.get("where", True) is True:
        kw.pop("where", None)
    ins = [_strip(i) for i in inputs]
    any_obj = any(isinstance(i, np.ndarray) and i.dtype == object for i in ins) or any(
        isinstance(i, _symtypes()) for i in inputs
    )
    if out is not None:
        outs = out if isinstance(out, tuple) else (out,)
        any_obj = any_obj or any(isinstance(o, np.ndarray) and o.dtype == object for o in outs)
    if not any_obj:
        # purely numeric: real numpy on the base arrays
        r = getattr(ufunc, method)(*ins, **kw)
        if out is not None:
            _strip(outs[0])[...] = r
            return outs[0]
        return _wrap(r)
    f = _pyuf(ufunc)
    if method == "__call__":
        r = f(*ins, **kw)
    elif method in ("reduce", "accumulate"):
        if "initial" in kw and kw["initial"] is np._NoValue:
            kw.pop("initial")
        kw.pop("initial", None) if kw.get("initial", None) is None else None
        a = ins[0]
        if not isinstance(a, np.ndarray):
            a = np.asarray(a, dtype=object)
        if a.dtype != object:
            a = a.astype(object)
        r = getattr(f, method)(a, *ins[1:], **kw)
    elif method == "outer":
        r = f.outer(*ins, **kw)
    else:
        raise HarnessError(f"ufunc method {method} not supported symbolically")
    r = _tidy(r)
    if out is not None:
        o = outs[0]
        _strip(o)[...] = r
        return o
    return _wrap(r)


def _scalar_array_ufunc(self, ufunc, method, *inputs, **kw):
    return _apply_ufunc(ufunc, method, inputs, kw)


# --------------------------------------------------------------------------------------------
# arrays


def _force_mask(m):
    """object array of SB/bool -> concrete bool array (forks per symbolic element)."""
    m = np.asarray(m).view(np.ndarray)
    out = np.empty(m.shape, dtype=bool)
    for idx in np.ndindex(m.shape):
        out[idx] = bool(m[idx])
    return out


def _is_boolish_obj(k):
    if not isinstance(k, np.ndarray) or k.dtype != object:
        return False
    if k.size == 0:
        return True
    return all(isinstance(e, (SB, bool, np.bool_)) for e in k.flat)


class SymArray(np.ndarray):
    __array_priority__ = 100

    def __array_ufunc__(self, ufunc, method, *inputs, **kw):
        return _apply_ufunc(ufunc, method, inputs, kw)

    def __array_function__(self, func, types, args, kwargs):
        from . import npx

        impl = npx.OVERRIDES.get(func.__name__) if (getattr(func, "__module__", "") or "").startswith("numpy") else None
        if impl is not None and getattr(_np_top, func.__name__, None) is func:
            return impl(*args, **kwargs)
        # default: numpy's own implementation with our arrays intact (inner ufuncs route back to us)
        f = getattr(func, "_implementation", None)
        if f is None:
            r = func(*npx.deep_strip(args), **npx.deep_strip(kwargs))
        else:
            r = f(*args, **kwargs)
        return npx.deep_wrap(r)

    @staticmethod
    def _fix_key(key):
        if isinstance(key, tuple):
            return tuple(SymArray._fix_key1(k) for k in key)
        return SymArray._fix_key1(key)

    @staticmethod
    def _sym_index(v):
        """a symbolic count used as an index or slice bound: one path per feasible integer value (0..256).
        (SR deliberately has no __index__: numpy would call it whenever an SR meets a numpy scalar.)"""
        if not isinstance(v, SR):
            return v
        t = z3.simplify(v.t)
        if z3.is_rational_value(t) and t.denominator_as_long() == 1:
            return t.numerator_as_long()
        for k in range(0, 257):
            if bool(v == k):
                return k
        raise HarnessError("symbolic index outside 0..256 or not an integer")

    @staticmethod
    def _fix_key1(k):
        if isinstance(k, SB):
            return bool(k)
        if isinstance(k, SR):
            return SymArray._sym_index(k)
        if isinstance(k, slice) and any(isinstance(v, SR) for v in (k.start, k.stop, k.step)):
            return slice(SymArray._sym_index(k.start), SymArray._sym_index(k.stop), SymArray._sym_index(k.step))
        if isinstance(k, np.ndarray):
            if _is_boolish_obj(k):
                return _force_mask(k)
            if k.dtype == object:
                raise HarnessError("symbolic (non-boolean) array used as an index")
            return k.view(np.ndarray)
        if isinstance(k, list) and any(isinstance(e, SB) for e in k):
            return _force_mask(np.array(k, dtype=object))
        return k

    def __getitem__(self, key):
        r = np.ndarray.__getitem__(self, SymArray._fix_key(key))
        return r

    def __setitem__(self, key, value):
        # arr[symbolic mask] = scalar  -> merge instead of forking
        if (
            isinstance(key, np.ndarray) and _is_boolish_obj(key) and key.shape == self.shape
            and not isinstance(value, np.ndarray) and self.dtype == object
        ):
            base = self.view(np.ndarray)
            for idx in np.ndindex(self.shape):
                c = key.view(np.ndarray)[idx]
                if isinstance(c, SB):
                    base[idx] = If(c, value, base[idx])
                elif c:
                    base[idx] = value
            return
        if isinstance(value, SymArray):
            value = value.view(np.ndarray)
        if self.dtype == object and isinstance(value, np.ndarray) and value.size == 1 and value.ndim > 0:
            # a numeric array element receives the single entry of a size-1 array (numpy converts it to a scalar);
            # an object array would keep the array itself as the element
            k = key if isinstance(key, tuple) else (key,)
            if len(k) == self.ndim and all(isinstance(i, (int, np.integer)) for i in k):
                value = value.flat[0]
        if self.dtype != object and is_sym(value):
            raise HarnessError(
                f"symbolic value stored into a {self.dtype} array (an array constructor is missing from the numpy proxy)"
            )
        np.ndarray.__setitem__(self, SymArray._fix_key(key), value)

    # reductions that numpy implements in Python via ufunc.reduce go through __array_ufunc__.
    def any(self, axis=None, out=None, keepdims=False, **kw):
        return np.logical_or.reduce(self, axis=axis, keepdims=keepdims)

    def all(self, axis=None, out=None, keepdims=False, **kw):
        return np.logical_and.reduce(self, axis=axis, keepdims=keepdims)

    def sum(self, axis=None, dtype=None, out=None, keepdims=False, **kw):
        return np.add.reduce(self, axis=axis, keepdims=keepdims)

    def prod(self, axis=None, dtype=None, out=None, keepdims=False, **kw):
        return np.multiply.reduce(self, axis=axis, keepdims=keepdims)

    def max(self, axis=None, out=None, keepdims=False, **kw):
        return np.maximum.reduce(self, axis=axis, keepdims=keepdims)

    def min(self, axis=None, out=None, keepdims=False, **kw):
        return np.minimum.reduce(self, axis=axis, keepdims=keepdims)

    def cumsum(self, axis=None, dtype=None, out=None):
        a = self if axis is not None else self.ravel()
        return np.add.accumulate(a, axis=axis or 0)

    def mean(self, axis=None, **kw):
        n = self.size if axis is None else self.shape[axis]
        return self.sum(axis=axis) / n

    def tolist(self):
        return self.view(np.ndarray).tolist()


def trunc(v):
    """C cast double -> integer (truncation toward zero) of a symbolic real"""
    if isinstance(v, SB):
        return v
    if isinstance(v, SR):
        t = v.t
        return SR(z3.If(t >= 0, z3.ToReal(z3.ToInt(t)), -z3.ToReal(z3.ToInt(-t))))
    if isinstance(v, np.ndarray):
        if v.dtype == object:
            out = np.empty(v.shape, dtype=object)
            for i in np.ndindex(v.shape):
                out[i] = trunc(v.view(np.ndarray)[i])
            return out
        return v.astype(np.int64)
    if isinstance(v, (list, tuple)):
        return trunc(_obj_array(v)) if is_sym(v) else np.asarray(v).astype(np.int64)
    return int(v)


class IntSymArray(SymArray):
    """stand-in for an integer-dtype ndarray that receives symbolic values (np.empty_like(<int array>)): stores
    truncate toward zero exactly as numpy's double -> int64 assignment does"""

    def __setitem__(self, key, value):
        SymArray.__setitem__(self, key, trunc(value))


def sarr(x, dtype=None):
    """Make a SymArray from nested data (keeps dtype numeric when everything is concrete)."""
    if isinstance(x, SymArray) and dtype is None:
        return x
    if isinstance(x, np.ndarray):
        return x.view(SymArray) if dtype is None else x.astype(dtype).view(SymArray)
    if is_sym(x) or dtype is object:
        a = _obj_array(x)
        return a.view(SymArray)
    return np.asarray(x, dtype=dtype).view(SymArray)


def _shape_of(x):
    if isinstance(x, np.ndarray):
        return x.shape
    if isinstance(x, (list, tuple)):
        if len(x) == 0:
            return (0,)
        s0 = _shape_of(x[0])
        for e in x[1:]:
            if _shape_of(e) != s0:
                raise ValueError("setting an array element with a sequence. The requested array has an inhomogeneous shape")
        return (len(x),) + s0
    return ()


def _obj_array(x):
    shp = _shape_of(x)
    a = np.empty(shp, dtype=object)
    if shp == ():
        a[()] = x.item() if isinstance(x, np.ndarray) else x
        return a

    def fill(dst, src):
        if dst.ndim == 1:
            for i in range(dst.shape[0]):
                e = src[i]
                if isinstance(e, np.ndarray) and e.ndim == 0:
                    e = e.item()
                dst[i] = e
        else:
            for i in range(dst.shape[0]):
                fill(dst[i], src[i])

    fill(a, x)
    return a


def concretize(x, dtype=float):
    """object array with only concrete numbers -> numeric ndarray; symbolic element = harness error."""
    if isinstance(x, (SR, SB)):
        raise HarnessError("symbolic value reached a third-party (compiled) boundary")
    if isinstance(x, np.ndarray):
        b = x.view(np.ndarray)
        if b.dtype == object:
            for e in b.flat:
                if isinstance(e, (SR, SB)):
                    raise HarnessError("symbolic value reached a third-party (compiled) boundary")
            return b.astype(dtype)
        return b
    return x


# --------------------------------------------------------------------------------------------
# linear abstraction: products / quotients / powers of two non-constant terms become uninterpreted functions.
# Every model of the exact formula is a model of the abstract one, so "abstract unsat" is a sound proof; it is
# tried first because UF+linear arithmetic is decided in milliseconds where UF+nonlinear arithmetic may not return.

_ABS_CACHE = {}
_MULF = z3.Function("mul!", _REAL, _REAL, _REAL)
_DIVF = z3.Function("div!", _REAL, _REAL, _REAL)
_POWF = z3.Function("pow!", _REAL, _REAL, _REAL)


def _is_znum(t):
    return z3.is_rational_value(t) or z3.is_int_value(t)


def abstract(t):
    k = t.get_id()
    hit = _ABS_CACHE.get(k)
    if hit is not None and hit[0].eq(t):   # ids are recycled after garbage collection: keep the term alive
        return hit[1]
    if not z3.is_app(t) or t.num_args() == 0:
        r = t
    else:
        ch = [abstract(c) for c in t.children()]
        kind = t.decl().kind()
        if kind == z3.Z3_OP_MUL:
            nums = [c for c in ch if _is_znum(c)]
            rest = [c for c in ch if not _is_znum(c)]
            if len(rest) > 1:
                # a factor like (o + a) - (o + b) is a constant in disguise: look before giving up linearity
                rest2 = []
                for c in rest:
                    cs = z3.simplify(c)
                    (nums if _is_znum(cs) else rest2).append(cs if _is_znum(cs) else c)
                rest = rest2
            rest = sorted(rest, key=lambda c: c.get_id())
            if len(rest) == 0:
                r = z3.simplify(z3.Product(*nums)) if len(nums) > 1 else nums[0]
            elif len(rest) == 1 and len(nums) + 1 != len(ch):
                acc = rest[0]
                for c in nums:
                    acc = c * acc
                r = acc
            elif len(rest) <= 1:
                r = t.decl()(*ch) if len(ch) == t.num_args() else t
            else:
                acc = rest[0]
                for c in rest[1:]:
                    acc = _MULF(acc, c)
                for c in nums:
                    acc = c * acc
                r = acc
        elif kind == z3.Z3_OP_DIV:
            if not _is_znum(ch[1]):
                c1 = z3.simplify(ch[1])
                if _is_znum(c1):
                    ch[1] = c1
            r = (ch[0] / ch[1]) if _is_znum(ch[1]) else _DIVF(ch[0], ch[1])
        elif kind == z3.Z3_OP_POWER:
            r = _POWF(ch[0], ch[1])
        else:
            try:
                r = t.decl()(*ch)
            except Exception:
                r = t
    if len(_ABS_CACHE) > 300000:
        _ABS_CACHE.clear()
    _ABS_CACHE[k] = (t, r)
    return r


# --------------------------------------------------------------------------------------------
# rational-function normal form: t = num/den with polynomial num, den (denominators are non-zero by the
# division assumptions already on the path).  "t == 0" then is the polynomial identity num == 0, which z3's
# sum-of-monomials simplifier decides; division inside nlsat queries is what makes them time out.


def ratfun(t, cache=None):
    cache = {} if cache is None else cache
    k = t.get_id()
    hit = cache.get(k)
    if hit is not None and hit[0].eq(t):
        return hit[1]
    one = z3.RealVal(1)
    if not z3.is_app(t) or t.num_args() == 0:
        r = (t, one)
    else:
        kind = t.decl().kind()
        if kind in (z3.Z3_OP_ADD, z3.Z3_OP_SUB):
            parts = [ratfun(c, cache) for c in t.children()]
            dens = []
            for (_, d) in parts:
                if not any(d.eq(e) for e in dens) and not z3.is_rational_value(d):
                    dens.append(d)
            den = one
            for d in dens:
                den = den * d
            terms = []
            for i, (nn, d) in enumerate(parts):
                f = nn
                for e in dens:
                    if not e.eq(d):
                        f = f * e
                if z3.is_rational_value(d) and not (d.numerator_as_long() == 1 and d.denominator_as_long() == 1):
                    f = f / d
                terms.append(f if (kind == z3.Z3_OP_ADD or i == 0) else -f)
            r = (z3.Sum(*terms) if len(terms) > 1 else terms[0], den)
        elif kind == z3.Z3_OP_UMINUS:
            nn, d = ratfun(t.arg(0), cache)
            r = (-nn, d)
        elif kind == z3.Z3_OP_MUL:
            parts = [ratfun(c, cache) for c in t.children()]
            nn, d = parts[0]
            for (n2, d2) in parts[1:]:
                nn, d = nn * n2, (d if z3.is_rational_value(d2) and d2.numerator_as_long() == d2.denominator_as_long() == 1 else d * d2)
            r = (nn, d)
        elif kind == z3.Z3_OP_DIV:
            n1, d1 = ratfun(t.arg(0), cache)
            n2, d2 = ratfun(t.arg(1), cache)
            r = (n1 * d2, d1 * n2)
        else:
            r = (t, one)   # uninterpreted application, ite, ...: an atom
    cache[k] = (t, r)
    return r


def poly_is_zero(p):
    z = z3.simplify(p, som=True)
    return z3.is_rational_value(z) and z.numerator_as_long() == 0


# --------------------------------------------------------------------------------------------
# engine


class Engine:
    """Re-execution DFS over branch decisions + one incremental z3 solver."""

    def __init__(self, timeout_ms=20000, max_paths=20000, seed=0, budget_s=None):
        import time as _time
        self.deadline = None if budget_s is None else _time.time() + budget_s
        self.budget_s = budget_s
        self.solver = z3.Solver()
        self.solver.set("timeout", timeout_ms)
        self.asolver = z3.Solver()
        self.asolver.set("timeout", min(timeout_ms, 5000))
        try:
            self.solver.set("random_seed", seed)
            self.asolver.set("random_seed", seed)
        except Exception:
            pass
        self.timeout_ms = timeout_ms
        self.branch_timeout_ms = min(timeout_ms, 3000)
        self.max_paths = max_paths
        self.work = [[]]
        self.prefix = []
        self.log = []
        self.pos = 0
        self.in_path = False
        self.assume_div_nonzero = True
        self.portfolio = True
        self.uncertain = False
        self.ext_timeout_s = 120
        self._quick = False
        self.flatten_div = False
        self._divs = {}
        self.purify = False
        self.purified = {}
        self.purified_by_var = {}
        self.stats = {
            "paths": 0, "decisions": 0, "forks": 0, "queries": {"sat": 0, "unsat": 0, "unknown": 0},
            "solver_s": 0.0, "kernels": set(), "axioms": 0, "domain_assumptions": set(),
        }
        self._axioms_seen = set()

    # ---- path control
    def has_work(self):
        return bool(self.work)

    def _check_deadline(self):
        if self.deadline is not None:
            import time as _time
            if _time.time() > self.deadline:
                raise HarnessError(f"wall-clock budget of {self.budget_s} s for this obligation exhausted "
                                   f"after {self.stats['paths']} paths (not decided)")

    def begin_path(self):
        if self.stats["paths"] >= self.max_paths:
            raise HarnessError(f"path budget of {self.max_paths} exhausted")
        self._check_deadline()
        self.prefix = self.work.pop()
        self.log = []
        self.pos = 0
        self.stats["paths"] += 1
        self._axioms_seen = set()
        self._axioms_alive = []
        self._fresh = {}
        self.uncertain = False
        self.purify = False
        self.purified = {}
        self.purified_by_var = {}
        self.flatten_div = False
        self._divs = {}
        self.solver.push()
        self.asolver.push()
        self.in_path = True

    def end_path(self):
        self.solver.pop()
        self.asolver.pop()
        self.in_path = False

    def _add(self, fact):
        self.solver.add(fact)
        self.asolver.add(abstract(fact))

    def _acheck(self, *assumptions):
        """abstract (linearised) check: only 'unsat' answers are meaningful"""
        t0 = time.time()
        r = str(self.asolver.check(*[abstract(a) for a in assumptions]))
        self.stats["solver_s"] += time.time() - t0
        k = "abs_" + r
        self.stats["queries"][k] = self.stats["queries"].get(k, 0) + 1
        return r

    def _check(self, *assumptions):
        t0 = time.time()
        r = self.solver.check(*assumptions)
        self.stats["solver_s"] += time.time() - t0
        s = str(r)
        if s == "unknown" and self.portfolio and not self._quick:
            s2 = self._external(assumptions)
            if s2 == "unsat":
                s = "unsat"
                self.stats["queries"]["unsat_external_z3_4.8.12"] = self.stats["queries"].get("unsat_external_z3_4.8.12", 0) + 1
                return s
        self.stats["queries"][s] = self.stats["queries"].get(s, 0) + 1
        return s

    def _external(self, assumptions):
        """second opinion of /usr/bin/z3 (4.8.12) on the same query; only a clean 'unsat' is used"""
        import subprocess, tempfile, os, shutil
        z = shutil.which("z3")
        if z is None:
            return "unknown"
        sv = z3.Solver()
        sv.add(self.solver.assertions())
        for a in assumptions:
            sv.add(a)
        txt = "(set-logic ALL)\n" + sv.to_smt2()
        fd, path = tempfile.mkstemp(suffix=".smt2", dir="/var/tmp")
        t0 = time.time()
        try:
            with os.fdopen(fd, "w") as f:
                f.write(txt)
            out = subprocess.run([z, f"-T:{self.ext_timeout_s}", path], capture_output=True, text=True,
                                 timeout=self.ext_timeout_s + 20).stdout
        except Exception:
            out = ""
        finally:
            self.stats["solver_s"] += time.time() - t0
            try:
                os.unlink(path)
            except OSError:
                pass
        lines = [l.strip() for l in out.splitlines() if l.strip()]
        if any(l.startswith("(error") for l in lines):
            return "unknown"
        if lines and lines[0] == "unsat":
            return "unsat"
        return "unknown"

    def _check_quick(self, *assumptions):
        self.solver.set("timeout", self.branch_timeout_ms)
        self._quick = True
        try:
            return self._check(*assumptions)
        finally:
            self._quick = False
            self.solver.set("timeout", self.timeout_ms)

    def decide(self, cond):
        c = z3.simplify(cond)
        if z3.is_true(c):
            return True
        if z3.is_false(c):
            return False
        self.stats["decisions"] += 1
        if self.stats["decisions"] % 64 == 0:
            self._check_deadline()
        if self.pos < len(self.prefix):
            d = self.prefix[self.pos]
        else:
            # invariant: the current path is feasible, so if one side is refuted the other one holds
            rf = self._acheck(z3.Not(c))
            if rf != "unsat":
                rf = self._check_quick(z3.Not(c))
                if rf == "unknown":
                    rf = self._check(z3.Not(c))      # once more with the full budget (load-independent verdicts)
            if rf == "unsat":
                d = True
            else:
                rt = self._acheck(c)
                if rt != "unsat":
                    rt = self._check_quick(c)
                    if rt == "unknown":
                        rt = self._check(c)
                if rf == "unknown" or rt == "unknown":
                    self.uncertain = True            # a branch was taken without knowing that it is feasible
                if rt == "unsat":
                    d = False
                else:
                    # both sides possible (an 'unknown' is explored too: over-approximation, sound for proofs;
                    # counterexamples are replayed concretely before they are believed)
                    self.work.append(self.log + [False])
                    self.stats["forks"] += 1
                    d = True
        self.pos += 1
        self.log.append(d)
        self._add(c if d else z3.Not(c))
        return d

    def fresh_id(self, kind):
        n = self._fresh.get(kind, 0)
        self._fresh[kind] = n + 1
        return n

    # ---- facts
    def assume(self, cond):
        self._add(bterm(cond) if not z3.is_expr(cond) else cond)

    def axiom(self, fact):
        k = fact.get_id()
        if k in self._axioms_seen:
            return
        self._axioms_seen.add(k)
        self._axioms_alive.append(fact)
        self.stats["axioms"] += 1
        self._add(fact)

    def note_division(self, denom):
        d = z3.simplify(denom)
        if z3.is_rational_value(d):
            if d.numerator_as_long() == 0:
                raise ZeroDivisionError("symbolic division by constant zero")
            return
        if self.assume_div_nonzero:
            self.stats["domain_assumptions"].add("denominators are non-zero")
            self.axiom(d != 0)

    def note_domain(self, cond, what):
        # inputs outside the mathematical domain (log of negative ...) are outside every claim
        self.stats["domain_assumptions"].add(what + " excluded")
        self.axiom(cond)

    # ---- queries
    def prove(self, cond):
        """'unsat' (holds on this path), 'sat' (model available via self.model()), or 'unknown'."""
        c = bterm(cond) if not z3.is_expr(cond) else cond
        c = z3.simplify(c)
        if z3.is_true(c):
            self.stats["queries"]["unsat_by_simplifier"] = self.stats["queries"].get("unsat_by_simplifier", 0) + 1
            return "unsat"
        if self._acheck(z3.Not(c)) == "unsat":
            return "unsat"
        r = self._check(z3.Not(c))
        self._last_model = self.solver.model() if r == "sat" else None
        return r

    def feasible(self, cond=None, quick=False):
        if cond is None:
            r = self._check_quick() if quick else self._check()
            self._last_model = self.solver.model() if r == "sat" else None
            return r
        c = bterm(cond) if not z3.is_expr(cond) else cond
        if self._acheck(c) == "unsat":
            return "unsat"
        r = self._check(c)
        self._last_model = self.solver.model() if r == "sat" else None
        return r

    def reach_check(self):
        """is the current path feasible?  abstract 'unsat' is definitive; otherwise a short exact query; an
        'unknown' is resolved by the concrete validation run of the same harness (a real witness)"""
        if self._acheck() == "unsat":
            return "unsat"
        self.solver.set("timeout", 1500)
        self._quick = True
        try:
            return self._check()
        finally:
            self._quick = False
            self.solver.set("timeout", self.timeout_ms)

    def model(self):
        return self._last_model


def model_value(m, term):
    v = m.eval(term, model_completion=True)
    if z3.is_rational_value(v):
        return float(fractions.Fraction(v.numerator_as_long(), v.denominator_as_long()))
    if z3.is_algebraic_value(v):
        a = v.approx(20)
        return float(fractions.Fraction(a.numerator_as_long(), a.denominator_as_long()))
    if z3.is_true(v):
        return True
    if z3.is_false(v):
        return False
    if z3.is_int_value(v):
        return v.as_long()
    raise HarnessError(f"cannot read model value {v}")
