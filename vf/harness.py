"""Harness API: one harness function runs in two modes.

 sym       inputs are z3 constants, virocon's module globals are rebound (vf.shim.patched), every
           `h.check/h.close` is a solver query over all inputs on the current path.
 concrete  inputs are floats (a solver model = replay, or seeded values = validation of the encoding),
           nothing is rebound: real numpy/scipy; checks are evaluated numerically.

A solver counterexample is only reported after the same harness, run concretely on the model's input
values against the unpatched code, fails too.
"""

from __future__ import annotations

import json
import math
import os
import random
import time
import traceback

import numpy as np
import z3

from . import sym, shim, npx, stx, stubs
from .sym import SR, SB, SymArray, Engine, HarnessError, PathAbort

SYM_RTOL = 1e-6      # "robust violation" margin inside formulas (exact equality is tried first)
CONC_RTOL = 1e-9     # concrete replay / validation tolerance
MAX_MODELS = 8


class AssumptionFailed(Exception):
    pass


class ViolationFound(BaseException):
    def __init__(self, label, inputs, detail):
        self.label, self.inputs, self.detail = label, inputs, detail


class Unconfirmed(BaseException):
    def __init__(self, label, detail):
        self.label, self.detail = label, detail


def _from_real_code(exc):
    """did the exception pass through a frame of the virocon under test?"""
    tb = exc.__traceback__
    repo = os.path.realpath(shim.REPO) + os.sep
    while tb is not None:
        if os.path.realpath(tb.tb_frame.f_code.co_filename).startswith(repo):
            return True
        tb = tb.tb_next
    return False


class ConcreteFailure(Exception):
    def __init__(self, label, detail=""):
        self.label, self.detail = label, detail
        super().__init__(f"{label}: {detail}")


def _flat(x):
    if isinstance(x, (SR, SB)) or np.isscalar(x) or x is None:
        return [x]
    if isinstance(x, (list, tuple)):
        out = []
        for e in x:
            out.extend(_flat(e))
        return out
    a = np.asarray(npx.deep_strip(x))
    if a.dtype == object:
        return list(a.flat)
    return [v for v in a.astype(float).flat] if a.dtype != bool else [bool(v) for v in a.flat]


class H:
    def __init__(self, mode, cfg, eng=None, inputs=None, rng=None, replayer=None):
        self.mode = mode
        self.cfg = cfg
        self.E = eng
        self.inputs = inputs
        self.rng = rng
        self.replayer = replayer
        self.decl = {}          # name -> z3 term (sym) / value (concrete)
        self.kinds = {}
        self.ranges = {}
        self.results = []       # (label, status)
        self.notes = []
        self.sym = mode == "sym"

    # ------------------------------------------------------------------ inputs
    def real(self, name, lo=None, hi=None, lo_strict=False, hi_strict=False):
        if name in self.decl:
            raise HarnessError(f"input {name} declared twice")
        self.kinds[name] = "real"
        self.ranges[name] = (lo, hi)
        if self.sym:
            t = z3.Real(name)
            self.decl[name] = t
            if lo is not None:
                self.E.assume(t > sym.rterm(lo) if lo_strict else t >= sym.rterm(lo))
            if hi is not None:
                self.E.assume(t < sym.rterm(hi) if hi_strict else t <= sym.rterm(hi))
            return SR(t)
        if self.inputs is not None:
            if name not in self.inputs:
                # declared after the point where the symbolic run stopped: any admissible value will do
                a = -3.0 if lo is None else float(lo)
                b = a + 6.0 if hi is None else float(hi)
                self.inputs[name] = 0.5 * (a + b)
            v = float(self.inputs[name])
        else:
            a = -3.0 if lo is None else float(lo)
            b = a + 6.0 if hi is None else float(hi)
            v = self.rng.uniform(a, b)
            if (lo_strict and v == a) or (hi_strict and v == b):
                v = 0.5 * (a + b)
        self.decl[name] = v
        return v

    def reals(self, name, n, lo=None, hi=None, **kw):
        vals = [self.real(f"{name}{i}", lo, hi, **kw) for i in range(n)]
        if self.sym:
            a = np.empty(n, dtype=object)
            a[:] = vals
            return a.view(SymArray)
        return np.array(vals, dtype=float)

    def integer(self, name, lo, hi):
        self.kinds[name] = "int"
        self.ranges[name] = (lo, hi)
        if self.sym:
            t = z3.Int(name)
            self.decl[name] = t
            self.E.assume(z3.And(t >= lo, t <= hi))
            return SR(z3.ToReal(t))
        v = int(round(float(self.inputs[name]))) if self.inputs is not None else self.rng.randint(lo, hi)
        self.decl[name] = v
        return v

    def boolean(self, name):
        self.kinds[name] = "bool"
        if self.sym:
            t = z3.Bool(name)
            self.decl[name] = t
            return SB(t)
        v = bool(self.inputs[name]) if self.inputs is not None else self.rng.random() < 0.5
        self.decl[name] = v
        return v

    def assume(self, cond):
        if self.sym:
            self.E.assume(cond)
        else:
            if not bool(np.all(npx.deep_strip(cond))):
                raise AssumptionFailed()

    def distinct(self, xs, gap):
        xs = _flat(xs)
        for i in range(len(xs)):
            for j in range(i + 1, len(xs)):
                d = xs[i] - xs[j]
                # (the solver side is 0.1% stricter so that a boundary model still passes the float check of a replay)
                self.assume(sym.Or(d >= gap * 1.001, d <= -gap * 1.001) if self.sym else abs(d) >= gap)

    # ------------------------------------------------------------------ helpers usable by oracles in both modes
    def exp(self, x):
        return np.exp(x)

    def log(self, x):
        return np.log(x)

    def sqrt(self, x):
        return np.sqrt(x)

    @property
    def K(self):
        """distribution kernels: same surface as scipy.stats"""
        return stx.STX if self.sym else stx.ConcreteKernels()

    def arr(self, x):
        return sym.sarr(x) if self.sym else np.asarray(x, dtype=float)

    def note(self, s):
        self.notes.append(s)

    def generator(self, seed):
        """a fresh generator seeded with `seed` (sym: generator token with the documented contract)"""
        return stubs.default_rng(seed) if self.sym else np.random.default_rng(int(seed))

    # ------------------------------------------------------------------ checks
    def _model_inputs(self, m):
        out = {}
        for k, t in self.decl.items():
            out[k] = sym.model_value(m, t)
        return out

    def _candidate(self, label, cond_neg_term, detail, use_abstract=False, final=True, max_models=None):
        """cond_neg_term is (possibly) satisfiable on this path: replay models until one reproduces.
        Models are steered into random sub-boxes of the declared input ranges first (a solver's own choice tends
        to sit on range corners where e.g. a cdf saturates and hides the difference).
        use_abstract: take models from the linear abstraction (fast; may be spurious - the concrete replay on the
        real code is the judge either way)."""
        E = self.E
        S = E.asolver if use_abstract else E.solver
        conv = sym.abstract if use_abstract else (lambda t: t)
        nmax = max_models or MAX_MODELS

        def chk():
            t0 = time.time()
            r = str(S.check())
            E.stats["solver_s"] += time.time() - t0
            k = ("abs_" if use_abstract else "") + r
            E.stats["queries"][k] = E.stats["queries"].get(k, 0) + 1
            return r

        tried = []
        rng = random.Random(len(self.decl) * 1000003 + sum(map(ord, label)))
        S.push()
        try:
            S.add(conv(cond_neg_term))
            for k in range(nmax):
                m = None
                if k < nmax - 2 or use_abstract:
                    S.push()
                    for name, t in self.decl.items():
                        rg = self.ranges.get(name)
                        if rg and rg[0] is not None and rg[1] is not None and self.kinds[name] == "real":
                            w = (rg[1] - rg[0]) * 0.3
                            a = rng.uniform(rg[0], rg[1] - w)
                            S.add(t >= sym.rterm(a), t <= sym.rterm(a + w))
                    if chk() == "sat":
                        m = S.model()
                    S.pop()
                if m is None:
                    r = chk()
                    if r != "sat":
                        break
                    m = S.model()
                inputs = self._model_inputs(m)
                ok, why = self.replayer(inputs)
                tried.append({"inputs": inputs, "replay": why})
                if not ok:
                    raise ViolationFound(label, inputs, f"{detail}; concrete replay: {why}")
                # block a neighbourhood of this model and ask for another one
                lits = []
                for name, t in self.decl.items():
                    v = inputs[name]
                    if self.kinds[name] == "real":
                        d = 0.05 * (1 + abs(v))
                        lits.append(z3.Or(t > sym.rterm(v + d), t < sym.rterm(v - d)))
                    elif self.kinds[name] == "int":
                        lits.append(t != int(v))
                    else:
                        lits.append(t != z3.BoolVal(bool(v)))
                if not lits:
                    break
                S.add(z3.Or(*lits))
        finally:
            S.pop()
        if not final:
            return
        if not tried:
            # the solver could not produce a model in time (nonlinear feasibility): fall back to seeded admissible
            # concrete inputs of the same harness - they are a legitimate replay if they fail on the real code
            ok, why = self.replayer(None)
            tried.append({"inputs": "seeded admissible inputs", "replay": why})
            if not ok:
                raise ViolationFound(label, why.get("inputs"), f"{detail}; concrete replay: {why}")
        raise Unconfirmed(label, f"{detail}; solver models did not reproduce on the real code: {tried[:2]}")

    def check(self, cond, label, detail=""):
        if self.sym:
            if isinstance(cond, (bool, np.bool_)):
                if cond:
                    self.results.append((label, "proved"))
                    return
                neg = z3.BoolVal(True)
            else:
                c = sym.bterm(cond) if not z3.is_expr(cond) else cond
                c = z3.simplify(c)
                E = self.E
                if z3.is_true(c):
                    E.stats["queries"]["unsat_by_simplifier"] = E.stats["queries"].get("unsat_by_simplifier", 0) + 1
                    self.results.append((label, "proved"))
                    return
                neg = z3.Not(c)
                if E._acheck(neg) == "unsat":
                    self.results.append((label, "proved"))
                    return
                # cheap counterexample candidates from the linear abstraction, judged by concrete replay
                self._candidate(label, neg, detail, use_abstract=True, final=False, max_models=3)
                r = E._check(neg)
                if r == "unsat":
                    self.results.append((label, "proved"))
                    return
                if r == "unknown":
                    self.results.append((label, "unknown"))
                    return
            self._candidate(label, neg, detail)
        else:
            v = npx.deep_strip(cond)
            if not bool(np.all(v)):
                raise ConcreteFailure(label, detail)
            self.results.append((label, "ok"))

    def fail(self, label, detail=""):
        self.check(False, label, detail)

    def close(self, actual, expected, label, rtol=CONC_RTOL, atol=1e-12, approx=False, rational=False):
        """actual == expected (exactly in Real mode; else not robustly different)"""
        A, B = _flat(actual), _flat(expected)
        if len(A) != len(B):
            sa = getattr(actual, "shape", len(A))
            sb = getattr(expected, "shape", len(B))
            return self.check(False, label, f"shape mismatch {sa} vs {sb}")
        if not self.sym:
            for i, (a, b) in enumerate(zip(A, B)):
                a, b = float(a), float(b)
                if math.isnan(a) and math.isnan(b):
                    continue
                if not (abs(a - b) <= atol + rtol * max(abs(a), abs(b))):
                    raise ConcreteFailure(label, f"element {i}: got {a!r}, expected {b!r}")
            self.results.append((label, "ok"))
            return
        eqs, robust = [], []
        for a, b in zip(A, B):
            if not isinstance(a, (SR, SB)) and not isinstance(b, (SR, SB)):
                fa, fb = float(a), float(b)
                same = (math.isnan(fa) and math.isnan(fb)) or abs(fa - fb) <= atol + rtol * max(abs(fa), abs(fb))
                eqs.append(z3.BoolVal(bool(same)))
                robust.append(z3.BoolVal(not same))
                continue
            a, b = sym.lift(a), sym.lift(b)
            na = a.nan if a.nan is not None else z3.BoolVal(False)
            nb = b.nan if b.nan is not None else z3.BoolVal(False)
            eqs.append(z3.And(na == nb, z3.Or(na, a.t == b.t)))
            d = a.t - b.t
            ab = z3.If(b.t >= 0, b.t, -b.t)
            m = sym.rterm(SYM_RTOL) * (1 + ab)
            robust.append(z3.Or(na != nb, z3.And(z3.Not(na), z3.Or(d > m, d < -m))))
        E = self.E
        eq = z3.simplify(z3.And(*eqs))
        if z3.is_true(eq):
            E.stats["queries"]["unsat_by_simplifier"] = E.stats["queries"].get("unsat_by_simplifier", 0) + 1
            self.results.append((label, "proved"))
            return
        rob = z3.Or(*robust)
        # 0. rational-function normal form: a - b == 0 as a polynomial identity (denominators are non-zero on the path)
        if rational:
            ok = True
            cache = {}
            for a, b in zip(A, B):
                if not isinstance(a, (SR, SB)) and not isinstance(b, (SR, SB)):
                    continue
                num, den = sym.ratfun(sym.lift(a).t - sym.lift(b).t, cache)
                if not sym.poly_is_zero(num):
                    ok = False
                    break
            if ok:
                E.stats["queries"]["unsat_by_polynomial_identity"] = E.stats["queries"].get("unsat_by_polynomial_identity", 0) + 1
                self.results.append((label, "proved"))
                return
        # 1. linear abstraction (UF + linear arithmetic): exact equality, then "not robustly different"
        if not approx and E._acheck(z3.Not(eq)) == "unsat":
            self.results.append((label, "proved"))
            return
        if E._acheck(rob) == "unsat":
            self.results.append((label, "proved_tol"))
            return
        # 2. cheap counterexample candidates from the linear abstraction, judged by concrete replay
        self._candidate(label, rob, "values differ", use_abstract=True, final=False, max_models=3)
        # 3. exact (nonlinear) solver
        r = "skipped" if approx else E._check(z3.Not(eq))
        if r == "unsat":
            self.results.append((label, "proved"))
            return
        r2 = E._check(rob)
        if r2 == "unsat":
            self.results.append((label, "proved_tol"))
            return
        if r2 == "unknown":
            self.results.append((label, "unknown"))
            return
        self._candidate(label, rob, "values differ")

    def raises(self, fn, excs, label):
        """fn() must raise one of excs"""
        try:
            fn()
        except excs:
            self.results.append((label, "proved" if self.sym else "ok"))
            return
        self.check(False, label, "no exception raised")

    def reach(self, label="reach"):
        """reachability witness: the path up to here must be feasible"""
        if self.sym:
            r = self.E.reach_check()
            self.results.append((label, "witness" if r == "sat" else ("vacuous" if r == "unsat" else "witness_unknown")))
        else:
            self.results.append((label, "ok"))


# ----------------------------------------------------------------------------------------------


def cfg_key(cfg):
    return ",".join(f"{k}={cfg[k]}" for k in sorted(cfg) if not k.startswith("_"))


def run_concrete(fn, cfg, inputs=None, seed=0, tries=40):
    """returns (ok, why).  inputs=None -> seeded validation inputs satisfying the harness's assumptions"""
    import warnings

    last = "no admissible validation input found"
    for k in range(tries if inputs is None else 1):
        rng = random.Random(seed * 7919 + k)
        h = H("concrete", cfg, inputs=inputs, rng=rng)
        try:
            with warnings.catch_warnings():
                warnings.simplefilter("ignore")
                fn(h)
            return True, {"inputs": dict(h.decl), "checks": len(h.results)}
        except AssumptionFailed:
            last = "assumption not met by concrete inputs"
            if inputs is not None:
                return True, last
            continue
        except ConcreteFailure as e:
            return False, {"inputs": dict(h.decl), "failed": e.label, "detail": e.detail}
        except HarnessError:
            raise
        except Exception as e:  # the real code raised where the property says it must compute
            if not _from_real_code(e):
                raise HarnessError(f"harness raised {type(e).__name__}: {e}\n{traceback.format_exc(limit=6)}")
            return False, {"inputs": dict(h.decl), "failed": "exception",
                           "detail": f"{type(e).__name__}: {e}", "tb": traceback.format_exc(limit=6)}
    return True, last


def run_obligation(prop, hname, fn, cfg, seed=0, timeout_ms=20000, max_paths=20000, extra_bindings=None,
                   validate=True, budget_s=1500):
    """explore one (harness, configuration) symbolically; returns a result dict"""
    t0 = time.time()
    key = cfg_key(cfg)
    res = {"property": prop, "harness": hname, "cfg": key, "status": "proved", "labels": {}, "paths": 0,
           "notes": [], "validation": None}
    E = Engine(timeout_ms=timeout_ms, max_paths=max_paths, seed=seed, budget_s=budget_s)
    sym.set_engine(E)

    def replayer(inputs):
        sym.set_engine(None)
        try:
            with shim.unpatched():
                return run_concrete(fn, cfg, inputs)
        finally:
            sym.set_engine(E)

    pending_unconfirmed, n_unconfirmed = None, 0
    try:
        while E.has_work():
            E.begin_path()
            h = H("sym", cfg, eng=E, replayer=replayer)
            try:
                del stx.CALLS[:]
                stx.TERMS.clear()
                stx.AUTO_MONOTONE = False
                stubs.uninstall_all()
                stubs.install_rng()
                with shim.patched(extra_bindings(h) if extra_bindings else None):
                    fn(h)
            except PathAbort as e:
                res["notes"].append(f"path aborted: {e}")
                res["status"] = "inconclusive"
            except Unconfirmed as u:
                if E.uncertain:
                    # the path was entered on an 'unknown' feasibility verdict: most likely infeasible, say so
                    res["notes"].append(f"unconfirmed candidate on a path of unknown feasibility: {u.label}")
                    res["status"] = "inconclusive"
                else:
                    # a candidate that does not reproduce on the real code ends this path only: a later path may
                    # still hold a counterexample that does reproduce (that one is the violation to report); the
                    # obligation stays 'unconfirmed' (not decided) if none does
                    if pending_unconfirmed is None:
                        pending_unconfirmed = u
                    if len(res["notes"]) < 20:
                        res["notes"].append(f"unconfirmed candidate: {u.label}")
                    n_unconfirmed += 1
                    if n_unconfirmed >= 8:
                        raise pending_unconfirmed
            except (ViolationFound, HarnessError):
                raise
            except Exception as e:
                # unexpected exception on a feasible path of the real code
                if not _from_real_code(e):
                    raise HarnessError(f"harness raised {type(e).__name__}: {e}\n{traceback.format_exc(limit=6)}")
                detail = f"{type(e).__name__}: {e}"
                if E.feasible() == "sat":
                    try:
                        h._candidate("no-exception", z3.BoolVal(True), f"real code raised {detail}")
                    except Unconfirmed as u:
                        u.detail += "\n" + traceback.format_exc(limit=8)
                        raise u
            finally:
                E.end_path()
            for label, st in h.results:
                d = res["labels"].setdefault(label, {})
                d[st] = d.get(st, 0) + 1
            for n in h.notes:
                if n not in res["notes"]:
                    res["notes"].append(n)
        if pending_unconfirmed is not None:
            raise pending_unconfirmed
        sts = {s for d in res["labels"].values() for s in d}
        if "unknown" in sts and res["status"] == "proved":
            res["status"] = "inconclusive"
        if "vacuous" in sts:
            res["status"] = "vacuous"
    except ViolationFound as v:
        res["status"] = "violated"
        res["violation"] = {"label": v.label, "inputs": v.inputs, "detail": str(v.detail)[:2000]}
    except Unconfirmed as u:
        res["status"] = "unconfirmed"
        res["violation"] = {"label": u.label, "detail": str(u.detail)[:3000]}
    except HarnessError as e:
        res["status"] = "harness_error"
        res["error"] = f"{e}\n{traceback.format_exc(limit=8)}"
    finally:
        sym.set_engine(None)
        stubs.uninstall_all()
    st = E.stats
    res.update(paths=st["paths"], decisions=st["decisions"], forks=st["forks"], queries=dict(st["queries"]),
               solver_s=round(st["solver_s"], 3), kernels=sorted(st["kernels"]), axioms=st["axioms"],
               domain=sorted(st["domain_assumptions"]))
    need_witness = any("witness_unknown" in d for d in res["labels"].values()) and not any(
        "witness" in d for d in res["labels"].values())
    if validate and res["status"] in ("proved", "inconclusive"):
        # validation of the encoding: the same oracle on the real code with real numpy/scipy
        ok, why = run_concrete(fn, cfg, None, seed=seed)
        res["validation"] = "ok" if ok else "failed"
        if not ok:
            res["status"] = "violated"
            res["violation"] = {"label": why.get("failed"), "inputs": why.get("inputs"),
                                "detail": "found by concrete validation run: " + str(why.get("detail"))[:1500]}
    if validate and res["status"] in ("harness_error", "unconfirmed"):
        # the symbolic run could not decide (e.g. the code uses a numpy function without a symbolic model): the
        # verdict stays 'not decided' (exit 3) unless the same oracle fails on the real code for concrete inputs
        # - that is a reproduced violation whatever found it
        for k in range(6):
            try:
                ok, why = run_concrete(fn, cfg, None, seed=seed + 7919 * k)
            except Exception:
                break
            if not ok:
                res["notes"] = res.get("notes", []) + [f"symbolic run was {res['status']}; violation found by concrete run {k}"]
                res["status"] = "violated"
                res["violation"] = {"label": why.get("failed"), "inputs": why.get("inputs"),
                                    "detail": "found by concrete validation run (symbolic run not decided): "
                                              + str(why.get("detail"))[:1500]}
                break
    if need_witness and res["status"] == "proved" and res.get("validation") != "ok":
        res["status"] = "vacuous"  # neither the solver nor a concrete run reached the assertions
    res["wall_s"] = round(time.time() - t0, 3)
    return res
