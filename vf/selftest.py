"""Self-validation of the encoding, run by every check before its obligations.

The symbolic-aware numpy stand-ins are executed in 'constant mode' (symbolic scalars wrapping constants, so every
comparison folds in the simplifier) and compared with real numpy on random small inputs and on the repository's own
test vectors; real virocon functions are run under the shim in constant mode and compared with their real results;
the FP models of np.arange / np.linspace are compared with numpy.  A mismatch makes the check fail closed (exit 3)."""

from __future__ import annotations

import warnings

import numpy as np
import z3

from . import sym, npx, shim, fp


def _c(a):
    """array of constants as symbolic scalars"""
    a = np.asarray(a, dtype=float)
    o = np.empty(a.shape, dtype=object)
    for i in np.ndindex(a.shape):
        o[i] = sym.lift(float(a[i]))
    return o.view(sym.SymArray)


def _v(x):
    """back to floats"""
    if isinstance(x, (sym.SR, sym.SB)):
        t = z3.simplify(x.t)
        if z3.is_true(t):
            return True
        if z3.is_false(t):
            return False
        return float(t.as_fraction())
    a = np.asarray(npx.deep_strip(x))
    if a.dtype != object:
        return a
    out = np.empty(a.shape, dtype=float)
    for i in np.ndindex(a.shape):
        out[i] = _v(a[i]) if isinstance(a[i], (sym.SR, sym.SB)) else float(a[i])
    return out


SKIPPED = []      # virocon functions of the current tree that could not be executed in constant mode (last run)


def run(seed=0):
    fails = []
    skipped = []
    SKIPPED[:] = []
    rng = np.random.default_rng(1234 + seed)
    E = sym.Engine()
    sym.set_engine(E)
    E.begin_path()
    n_cases = 0
    try:
        NPX = npx.NPX
        for t in range(60):
            n = int(rng.integers(1, 7))
            a = np.round(rng.uniform(-3, 6, size=n), 1)        # rounded: ties occur
            b = np.round(rng.uniform(-3, 6, size=n), 1)
            q = float(np.round(rng.uniform(0, 1), 2))
            checks = [
                ("quantile", lambda: NPX.quantile(_c(a), q), lambda: np.quantile(a, q)),
                ("quantile-merge", lambda: _merge(lambda: NPX.quantile(_c(a), q)), lambda: np.quantile(a, q)),
                ("median", lambda: NPX.median(_c(a)), lambda: np.median(a)),
                ("sort", lambda: NPX.sort(_c(a)), lambda: np.sort(a)),
                ("argsort-stable", lambda: NPX.argsort(_c(a), kind="mergesort"), lambda: np.argsort(a, kind="mergesort")),
                ("max", lambda: NPX.max(_c(a)), lambda: np.max(a)),
                ("min", lambda: NPX.min(_c(a)), lambda: np.min(a)),
                ("sum", lambda: NPX.sum(_c(a)), lambda: np.sum(a)),
                ("cumsum", lambda: NPX.cumsum(_c(a)), lambda: np.cumsum(a)),
                ("mean", lambda: NPX.mean(_c(a)), lambda: np.mean(a)),
                ("where", lambda: NPX.where(_c(a) > 1.0, _c(a), _c(b)), lambda: np.where(a > 1.0, a, b)),
                ("abs", lambda: NPX.abs(_c(a)), lambda: np.abs(a)),
                ("isclose", lambda: NPX.isclose(_c(a), _c(b), rtol=0.3), lambda: np.isclose(a, b, rtol=0.3)),
                ("nonzero", lambda: NPX.nonzero(_c(np.round(a)))[0], lambda: np.nonzero(np.round(a))[0]),
                ("maximum", lambda: np.maximum(_c(a), _c(b)), lambda: np.maximum(a, b)),
                ("floor", lambda: np.floor(_c(a)), lambda: np.floor(a)),
                ("ceil", lambda: np.ceil(_c(a)), lambda: np.ceil(a)),
                ("trunc", lambda: np.trunc(_c(a)), lambda: np.trunc(a)),
                ("mod", lambda: np.mod(_c(a), 1.5), lambda: np.mod(a, 1.5)),
                ("mod-neg-divisor", lambda: np.mod(_c(a), -0.7), lambda: np.mod(a, -0.7)),
                ("floor_divide", lambda: np.floor_divide(_c(a), 0.7), lambda: np.floor_divide(a, 0.7)),
                ("histogram", lambda: NPX.histogram(_c(a), bins=_c(np.array([-3.0, 0.0, 1.5, 6.0])))[0],
                 lambda: np.histogram(a, bins=np.array([-3.0, 0.0, 1.5, 6.0]))[0]),
                ("flatnonzero", lambda: NPX.flatnonzero(_c(a) > 1.0), lambda: np.flatnonzero(a > 1.0)),
                ("matmul", lambda: None if n < 2 else NPX.matmul(_c(np.c_[a, b]), _c(np.array([[0.5, -1.0], [2.0, 0.25]]))),
                 lambda: None if n < 2 else np.c_[a, b] @ np.array([[0.5, -1.0], [2.0, 0.25]])),
                ("quantile-axis0", lambda: None if n < 2 else NPX.quantile(_c(np.c_[a, b]), q, axis=0),
                 lambda: None if n < 2 else np.quantile(np.c_[a, b], q, axis=0)),
                ("searchsorted", lambda: NPX.searchsorted(NPX.sort(_c(a)), sym.lift(1.0)), lambda: np.searchsorted(np.sort(a), 1.0)),
                ("searchsorted-right", lambda: NPX.searchsorted(NPX.sort(_c(a)), sym.lift(float(a[0])), side="right"),
                 lambda: np.searchsorted(np.sort(a), float(a[0]), side="right")),
                ("clip", lambda: NPX.clip(_c(a), 0.0, 1.0), lambda: np.clip(a, 0.0, 1.0)),
                ("le-and", lambda: (_c(a) <= 2.0) & (_c(b) > 0.5), lambda: (a <= 2.0) & (b > 0.5)),
                ("linalg.norm", lambda: None if n < 2 else NPX.linalg.norm(_c(np.abs(a) + 1)) ** 2,
                 lambda: None if n < 2 else np.linalg.norm(np.abs(a) + 1) ** 2),
            ]
            if n >= 2:
                checks.append(("std", lambda: NPX.std(_c(a), ddof=1) ** 2, lambda: np.std(a, ddof=1) ** 2))
            for name, f_sym, f_real in checks:
                n_cases += 1
                try:
                    got, want = f_sym(), f_real()
                    if got is None and want is None:
                        continue
                    if name in ("linalg.norm", "std"):
                        # involve the uninterpreted sqrt: compare through the solver (sqrt(t)^2 = t instances)
                        d = sym.lift(got) - float(want)
                        if E.prove(sym.bterm(sym.And(d <= 1e-9, d >= -1e-9))) != "unsat":
                            fails.append(f"{name}: {a}: solver cannot confirm {want}")
                        continue
                    if not np.allclose(np.asarray(_v(got), dtype=float), np.asarray(want, dtype=float), rtol=1e-9, atol=1e-9):
                        fails.append(f"{name}: {a} {b} q={q}: {_v(got)} vs {want}")
                except Exception as e:
                    fails.append(f"{name}: raised {type(e).__name__}: {e}")
        # Real-mode linspace / arange models with symbolic-constant arguments
        for t in range(40):
            # dyadic values: (hi - lo) / step is exact in doubles, so the exact-real model and numpy's floating-point
            # length rule must agree (the rounding cases are the subject of the FP models below)
            lo = float(rng.integers(0, 25)) / 8.0
            hi = lo + float(rng.integers(4, 49)) / 8.0
            k = int(rng.integers(1, 9))
            n_cases += 2
            got = _v(NPX.linspace(sym.lift(lo), sym.lift(hi), k, endpoint=False))
            if not np.allclose(got, np.linspace(lo, hi, k, endpoint=False), rtol=1e-12):
                fails.append(f"linspace {lo} {hi} {k}")
            st = float(rng.choice([0.5, 0.25, 1.0, 0.75]))
            got = _v(NPX.arange(sym.lift(lo), sym.lift(hi), sym.lift(st)))
            want = np.arange(lo, hi, st)
            if len(got) != len(want) or not np.allclose(got, want, rtol=1e-12):
                fails.append(f"arange {lo} {hi} {st}: {len(got)} vs {len(want)}")
        # integer-typed *_like arrays: stores truncate toward zero as numpy's double -> int64 assignment does
        for t in range(20):
            proto = rng.integers(-3, 9, size=3)
            vals = np.round(rng.uniform(-4, 9, size=3), 2)
            n_cases += 1
            want = np.empty_like(proto)
            want[:] = vals
            got = NPX.empty_like(proto)
            got[:] = _c(vals)
            got[0] = sym.lift(float(vals[0]))
            if not np.array_equal(_v(got), want.astype(float)):
                fails.append(f"empty_like(int) store: {vals} -> {_v(got)} vs {want}")
        # 4x4 solve (Cramer) against LAPACK
        for t in range(10):
            A = np.round(rng.normal(size=(4, 4)), 2)
            A[rng.random((4, 4)) < 0.35] = 0
            if abs(np.linalg.det(A)) < 1e-2:
                continue
            bvec = np.round(rng.normal(size=4), 2)
            n_cases += 1
            x = _v(NPX.linalg.solve(A.astype(object).view(sym.SymArray), _c(bvec)))
            if not np.allclose(x, np.linalg.solve(A, bvec), rtol=1e-9):
                fails.append("linalg.solve")
        # real virocon functions under the shim, constant mode, against their real results
        C = shim.mod("contours")
        I = shim.mod("_intersection")
        for t in range(25):
            shape = [(4,), (2, 2), (2, 3), (1, 2, 2)][t % 4]
            # dyadic values: sums are exact in doubles, so the Real-mode run must agree with numpy everywhere
            arr = rng.integers(0, 40, size=shape) / 128.0
            lim = float(rng.integers(8, 140)) / 128.0
            n_cases += 1
            try:
                with warnings.catch_warnings():
                    warnings.simplefilter("ignore")
                    try:
                        r1 = C.HighestDensityContour.cumsum_biggest_until(arr, lim)
                    except IndexError:
                        r1 = None
                    with shim.patched():
                        try:
                            r2 = C.HighestDensityContour.cumsum_biggest_until(_c(arr), sym.lift(lim))
                        except IndexError:
                            r2 = None
            except Exception as e:
                # the CURRENT tree's function cannot be executed by the encoding (e.g. it uses a numpy function without
                # a model): not a defect of the stand-ins that are validated here - the obligations that need this
                # function report it themselves (not decided / violation)
                skipped.append(f"cumsum_biggest_until: {type(e).__name__}: {e}")
                break
            if (r1 is None) != (r2 is None) or (r1 is not None and not np.array_equal(r1[0], _v(r2[0]))):
                fails.append(f"cumsum_biggest_until {arr.ravel()} {lim}")
        for t in range(15):
            n1, n2 = int(rng.integers(2, 5)), int(rng.integers(2, 4))
            x1, y1, x2, y2 = [np.round(rng.uniform(0, 5, size=k), 2) for k in (n1, n1, n2, n2)]
            n_cases += 1
            try:
                r = I.intersection(x1, y1, x2, y2)
                with shim.patched():
                    rs = I.intersection(_c(x1), _c(y1), _c(x2), _c(y2))
            except Exception as e:
                skipped.append(f"intersection: {type(e).__name__}: {e}")
                break
            xs = np.sort(np.atleast_1d(_v(rs[0]))) if len(rs[0]) else np.array([])
            if len(xs) != len(r[0]) or not np.allclose(xs, np.sort(r[0]), rtol=1e-9):
                fails.append(f"intersection {x1} {y1} {x2} {y2}")
        # the repository's own interval test vector (tests/test_intervals.py): 0.5 .. 9.5, width 1
        Iv = shim.mod("intervals")
        data = np.arange(0.5, 10, 1.0)
        n_cases += 1
        try:
            r = Iv.WidthOfIntervalSlicer(1.0, min_n_points=1).slice_(data)
            with shim.patched():
                rs = Iv.WidthOfIntervalSlicer(1.0, min_n_points=1).slice_(_c(data))
            if len(r[0]) != len(rs[0]) or not all(np.array_equal(np.asarray(m1), np.asarray(_v(m2)).astype(bool)) for m1, m2 in zip(r[0], rs[0])):
                fails.append("WidthOfIntervalSlicer on the repository's test vector")
        except Exception as e:
            skipped.append(f"WidthOfIntervalSlicer: {type(e).__name__}: {e}")
    finally:
        E.end_path()
        sym.set_engine(None)
    # FP models of numpy's range functions
    for t in range(3000):
        a = float(rng.choice([0.0, rng.uniform(0, 5)]))
        w = float(rng.choice([0.1, 0.3, 0.7, 0.25, rng.uniform(0.01, 10)]))
        m = float(rng.uniform(a, a + 20 * w))
        n_cases += 2
        r, mo = np.arange(a, m + w, w), fp.np_arange_model(a, m + w, w)
        if len(r) != len(mo) or not np.array_equal(r, mo):
            fails.append(f"FP arange model {a} {m} {w}")
        k = int(rng.integers(1, 13))
        lo = float(rng.uniform(0, 5))
        hi = lo + float(rng.uniform(0.1, 20))
        r, st = np.linspace(lo, hi, k, endpoint=False, retstep=True)
        mo, st2 = fp.np_linspace_model(lo, hi, k)
        if not np.array_equal(r, mo) or st != st2:
            fails.append(f"FP linspace model {lo} {hi} {k}")
    SKIPPED[:] = skipped        # reported separately; not failures of the stand-ins
    return n_cases, fails


def _merge(f):
    npx.MERGE_SORT[0] = True
    try:
        return f()
    finally:
        npx.MERGE_SORT[0] = False
